#!/usr/bin/env python3
"""Regenerates MANIFEST.json from the table below (one source of truth for what is claimed)."""
import json, os
V = os.path.dirname(os.path.abspath(__file__))
props = [json.loads(l) for l in open(os.path.join(V, "properties.jsonl"))]
titles = {p["id"]: p["title"] for p in props}

CHECKS = {
 "C01": dict(tech="TLC model checking of Lookup.tla vs kernel-model oracle (VFS!KResolve) + replay of every TLC-generated case into the real library (both backends) and the real openat2 + action-level trace validation of real lookups against Lookup.tla itself (TraceLookup.tla)",
             text="TLC exhaustively checks the emulated-walk step machine against the RESOLVE_IN_ROOT oracle on a bounded family of trees/paths/ops (AgreesWithKernel, InRoot, Bounded) and emits one case per terminal state; each case is replayed on the real library with and without openat2 and on the real kernel (three-way). Model checking is the right level: the property is an input/configuration quantifier over a small-step algorithm.",
             note="bounded instance; oracle validated against the running kernel on every replayed case (kernel arbitrates); link budgets scaled in the large instances, real (40/128) in the chain instance", ref="6/C01"),
 "C02": dict(tech="TLC model checking of Lookup.tla with an attacker process (invariant Contained, mechanism-removal variants) + ptrace-scheduled attacker sweeps on the real library (race trees + host-path mirror tree) judged by TLC trace validation (TraceFS.tla, TraceLookup.tla)",
             text="Design: every interleaving of attacker mutations with the walk's syscalls within the bound satisfies Contained; variants with check_current removed must violate it. Code: every attacker action of a repertoire is placed before every tree-relevant syscall of real lookups by a ptrace supervisor; each recorded trace is validated by TLC, which recomputes everIn from logged mutations.",
             note="a single openat2 is atomic-or-EAGAIN in the kernel (trusted); root dentry not moved; bounded trees/paths/attacker budget; quick tier samples the non-priority placements", ref="6/C02"),
 "C05": dict(tech="TLC trace validation of the raw ptrace-recorded syscall stream against the provenance automaton TraceDiscipline.tla",
             text="Every system call issued inside a library call (scenario catalogue x feature sets x warm/cold/fd0, attacked and fault-injected runs) must match an allowed shape of the automaton (single component, dirfd-relative, no-follow, fixed RESOLVE masks, one verified following open, CLOEXEC/NOCTTY at birth).",
             note="ptrace sees every syscall of the single-threaded worker; the exception list for AT_FDCWD/absolute paths is explicit in the spec", ref="6/C05"),
 "C11": dict(tech="TLC trace validation (TraceDiscipline.tla): syscall descriptor ledger + /proc/self/fd listing around every call",
             text="For every call of the scenario catalogue (all feature sets, cold/warm, descriptor 0 free, attacker- and fault-injected) the ledger of descriptors opened and not closed and the before/after listing must equal {returned fd} (+ the one process-lifetime procfs root), returned fd close-on-exec, lent descriptors untouched.",
             note="lazy global procfs handle attributed by identity (procfs root, once per process)", ref="6/C11"),

 "C03": dict(tech="TLC invariants OutsideFrame/ResultInside on RootOps.tla (all path spellings) + ptrace-scheduled attacker sweeps over every mutating operation judged by TLC trace validation (TraceFS.tla)",
             text="Static: TLC checks that no argument spelling makes the single *at call act on or return anything outside the root, and the dot-name/escaping spellings are replayed traced. Dynamic: every attacker action of the repertoire before every tree-relevant syscall of every mutating op; TLC replays all logged mutations, recomputes everIn and judges every library mutation / real open / returned descriptor.",
             note="attacker does not move the root dentry; single openat2 atomic-or-EAGAIN; quick tier samples non-priority placements; known finding F-C03-mkdir-all-below-new-dir is listed", ref="6/C03"),
 "C04": dict(tech="TLC-generated case families (Lookup.tla, RootOps.tla) + open-flag lattice + NUL-byte paths, each replayed on the real library with openat2 present and masked (seccomp ENOSYS), outcomes compared field by field; TLC equivalence of the emulated partial lookup (Partial.tla, SymlinkStack) with the openat2-style one",
             text="Same tree and arguments on both feature sets: success/failure, error class+errno, result inode, F_GETFL image (without O_NOFOLLOW), FD_CLOEXEC, resulting tree; lookups, single-entry mutations, mkdir_all/remove_all spellings, flag lattice restricted to flag sets openat2 accepts.",
             note="bounded instances; <= 40 link traversals; flag sets rejected by openat2's validation are outside the quantifier", ref="6/C04"),
 "C10": dict(tech="ptrace fault injection at every index of the real syscall sequence (single faults, EAGAIN sequences around the measured retry bound, fd exhaustion) judged by TLC (TraceFault.tla clean-failure contract + TraceFS containment + TraceLookup K_Openat2 retry automaton)",
             text="For every scenario call x feature set x cold/warm the real injectable-syscall sequence is recorded and each (index, errno) is re-run; TLC evaluates NoPanic, Terminates, ErrorOrSame (success only if the outcome equals the unfaulted run), OutsideFrame, NoLeak and the EAGAIN retry rule on every outcome record.",
             note="faults only in file-related syscalls; quick tier samples (index, errno) with a seed; thorough enumerates all", ref="6/C10"),
 "C12": dict(tech="TLC sequential model DoMkdirAll (RootOps.tla) generating every path spelling + two-process model Mkdir2.tla (state-graph-derived schedules) + two-process ptrace schedules (<=2 preemptions) judged by TLC postconditions (TraceFS!PostViolations) and action-level trace validation (TraceMkdir2.tla)",
             text="Every spelling of the bounded instance is executed traced on both backends; two concurrent mkdir_all callers are interleaved at relevant-syscall granularity; TLC checks on the real snapshots: handle = in-root resolution, only new directories named by the path were added with the requested mode, nothing removed, all concurrent callers succeed.",
             note="umask 022 (0 in the two-user family: two different unprivileged users race in a world-writable tree); no setgid directories; schedules bounded to two preemptions; known finding F-C12-empty-path listed", ref="6/C12"),
 "C13": dict(tech="TLC sequential model DoRemoveAll (RootOps.tla) generating every path spelling + two-process model Remove2.tla (any listing order, attacker exchange) + two-process ptrace schedules and attacker sweeps judged by TLC postconditions (TraceFS!PostViolations) and action-level trace validation (TraceRemove2.tla)",
             text="TLC checks on the real snapshots: nothing added, everything removed lies in the initial subtree of the named entry, the entry and its whole subtree are gone on success, dot names refused, concurrent callers all succeed.",
             note="schedules bounded to two preemptions; permission dimension (directories the caller may not modify, sticky directories) for an unprivileged caller with effective uid 65534 and gid 0", ref="6/C13"),
 "C14": dict(tech="TLC (RootOps.tla) computes expected errno class and final tree for every (tree, op, spelling); replayed three-way: library with openat2, library without, and the harness' raw *at call on (openat2-RESOLVE_IN_ROOT parent, name)",
             text="ExactEffect: outcome and final tree of create/create_file/remove_file/remove_dir/rename equal those of the corresponding *at call on (in-root parent, final name); kernel model cross-checked (0 mismatches on the unchanged tree).",
             note="bounded instance (three trees, spellings <= 2-3 components); modes compared as inode kind; every fifth case is called from a thread with a private descriptor table; 400 cases repeated by an unprivileged caller on mixed-ownership trees against the raw call by the same caller", ref="6/C14"),

 "C09": dict(tech="TLC enumeration of Reopen.tla (inode kind x access mode x extra flag x descriptor number x history) replayed through Handle::reopen and pathrs_reopen on both feature sets, plus a private-descriptor-table thread scenario",
             text="Every enumerated case: same inode as the handle, requested access mode/flags + O_CLOEXEC, ELOOP for symlink handles, creation flags refused, independence of the descriptor number (0, 1, 100) and of rename/replace/unlink histories; a thread with unshare(CLONE_FILES) whose leader holds decoys at the same numbers.",
             note="static histories (attacker interleavings are C02/C11); the host /proc is over-mounted as a whole (empty tmpfs, tmpfs with only self); over-mounts of single entries are exercised by C06", ref="6/C09"),
 "C15": dict(tech="TLC enumeration of Psl.tla (648 combinations, invariant SameRefusals) replayed with real chown/chmod/seteuid and the real sysctl on both backends and a raw openat2",
             text="Exhaustive over directory sticky/world-writable bits, directory owner, link owner, caller, link position and sysctl value; library verdict compared with the kernel's measured verdict and the model.",
             note="sysctl is global: set under an exclusive lock and restored; fresh worker per sysctl value", ref="6/C15"),
 "C16": dict(tech="TLC model checking of ErrTable.tla (+ no-retry variant) and TLC linearizability validation (TraceErr.tla) of real multi-threaded histories; birthday runs with 3*10^5..10^6 outstanding ids",
             text="Design: 3 threads, 4 failures, id space 3: LiveIdsDistinct, IdBelowErrnoRange, ConsumeReturnsThatFailure hold, and fail without the Occupied-retry. Code: random concurrent histories (2-6 threads, several error kinds, ids consumed on other threads) must be linearizable against the table model; enough ids are kept outstanding that collisions in the real 2^31 id space occur.",
             note="intervals from one atomic counter; collision coverage is probabilistic (expected 21 colliding pairs at N=3*10^5)", ref="6/C16"),
 "C17": dict(tech="TLC enumerates CBoundary.tla completely (function x invalid-argument class x value; link length x buffer size); every case executed against the real C ABI",
             text="Small-scope exhaustive, test per transition: error id + EINVAL + no effect (descriptor table, tree, current directory, caller buffer) for every invalid argument; readlink returns L, copies min(L,B), never writes beyond, NULL/0 allowed.",
             note="memory safety beyond canaries is outside this technique", ref="6/C17"),

 "C06": dict(tech="TLC model checking of Procfs.tla (skeleton, over-mount relation, handle kinds, both resolvers; invariant Genuine; mechanism-removal variants) + replay of every TLC-generated case with real mount(2) over-mounts in a private mount namespace",
             text="Design: for every over-mount set (<=1 quick, <=2 thorough) x handle kind x resolver x base x path x op a success never touches a visibly over-mounted node. Code: the same cases with real tmpfs/bind mounts (files, dirs, procfs files/dirs, symlink-on-symlink) and handles made from fsopen, open_tree (plain, recursive) and open descriptors; returned descriptors must be genuine (f_type, st_dev of the handle, not an over-mount source), visible over-mounts must fail, private handles must be unaffected (judged against the no-mount twin).",
             note="needs CAP_SYS_ADMIN in a private mount namespace (available here); quick tier: all racing symlink mounts on host-visible handles + a sample of the other racing placements; known finding F-C06-open_follow-ordinary-symlink listed", ref="6/C06"),
 "C07": dict(tech="TLC invariants NoLeave / MagicComponentRefused / OpenNeverFollows on Procfs.tla + class-level oracle ProcClass.tla (entry class x decoration x operation) applied to the live contents of /proc, /proc/self, /proc/thread-self through both procfs resolvers",
             text="Every live entry (classified file/dir/symlink-to-dir/symlink-to-file/magic-link) x 6 decorations x 9 operations x 2 resolvers: outcome must match the TLC-enumerated class table and, for sub-paths without '..', the two resolvers must agree; creation flags refused.",
             note="the worker's handle is ProcfsHandle::new(); some /proc files legitimately refuse to open (accepted if both resolvers agree); known finding F-C07-nonabsolute-magiclink-enoent listed", ref="6/C07"),
 "C08": dict(tech="TLC model checking of ProcRetry.tla (HandlesBounded, MissingIsENOENT; recursive variant must fail) + ptrace-traced real lookups on re-mounted /proc (hidepid=1/2/ptraceable, subset=pid) as root and as an unprivileged caller, judged by TLC (TraceRetry.tla)",
             text="Every host /proc option x privilege x constructor x base x path kind x operation: procfs root descriptors created, peak descriptors and syscall count per call are taken from the raw trace; missing paths must be ENOENT, existing ones must not.",
             note="'unprivileged' = effective uid switch (no effective capabilities); 'privileged without fsopen' = seccomp ENOSYS on fsopen (open_tree clones) or on the whole new mount API; bounds 6 handles / 24 descriptors / 4000 syscalls", ref="6/C08"),
}

NA = {
 "C18": "static relation between three texts (header, extern \"C\" definitions, binding call sites): no state or behaviours for a TLA+ specification to range over; see DESIGN.md 6/C18",
}

checks = []
for pid in sorted(CHECKS):
    c = CHECKS[pid]
    checks.append(dict(property_id=pid, quick_cmd="./check %s --tier quick" % pid, thorough_cmd="./check %s --tier thorough" % pid,
                       evidence_file="evidence/%s.json" % pid, replay_cmd_template="./check replay {path}", engine="tlc+pv",
                       level_claimed=dict(category="model_checking", text=c["text"], design_ref="DESIGN.md section " + c["ref"]),
                       level_note=c["note"], technique=c["tech"]))
na = []
for p in props:
    if p["id"] in CHECKS:
        continue
    na.append(dict(property_id=p["id"], reason=NA.get(p["id"], "check not built yet (work in progress in this session; design in DESIGN.md section 6)")))
m = dict(version=1,
         setup_cmd="cd /verif/harness && cp -n /repo/Cargo.lock Cargo.lock; cargo build --offline 2>&1 | tail -3",
         hooks=dict(guard="--cfg pathrs_verif", enable="rustflags in /verif/harness/.cargo/config.toml (no source hook is needed by the current checks: observation, scheduling, fault injection and feature masking are external via ptrace/seccomp)",
                    baseline_off_cmd="cd /repo && cargo nextest run --workspace --no-fail-fast --test-threads 8 --offline", source_commits=[], add_only=True),
         engines=[dict(name="tlc+pv", path="/verif/check", serves_properties=sorted(CHECKS), kind_free_text="explicit TLA+ specs (spec/*.tla) checked by TLC; bound to the code by pv (harness/): a ptrace supervisor that replays TLC-generated cases into the real library and records traces that TLC validates")],
         checks=checks, not_applicable=na,
         notes="See DESIGN.md. Genuine defects found are in known_findings.json (fixed: 19 'fix:' commits in /repo, listed with their witnesses under 'fixed'; recorded findings under 'findings').")
json.dump(m, open(os.path.join(V, "MANIFEST.json"), "w"), indent=1)
print("claimed:", sorted(CHECKS), "not_applicable:", [x["property_id"] for x in na])
