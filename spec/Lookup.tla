------------------------------ MODULE Lookup ------------------------------
(***************************************************************************)
(* In-root lookups of libpathrs as step machines over the kernel model,    *)
(* one action per system call of the implementation:                       *)
(*   - the emulated O_PATH walk  (src/resolvers/opath/imp.rs do_resolve,   *)
(*     check_current)                                                      *)
(*   - the openat2 backend       (src/resolvers/openat2.rs resolve/open)   *)
(*   - the one-shot open          (src/resolvers.rs Resolver::open)        *)
(*   - readlink                   (src/root.rs RootRef::readlink)          *)
(* racing with an attacker process that performs kernel-atomic tree        *)
(* mutations between any two steps.                                        *)
(*                                                                         *)
(* Properties: C01 (AgreesWithKernel, InRoot, Bounded) with MaxAttack = 0, *)
(* C02 (Contained) with MaxAttack > 0.                                     *)
(***************************************************************************)
EXTENDS VFS, Json

CONSTANTS
    Trees,          \* sequence of tree specs: [name, nodes : Seq([id, p, n, k, b]), maxlen, extra]
    Ops,            \* set of [op : {"resolve","open","readlink"}, nofollow, nosym, acc, odir]
    Backends,       \* subset of {"emulated", "kernel"}
    MaxIno,         \* inode ids are 1..MaxIno
    KMaxLinks,      \* MAXSYMLINKS of the kernel (40), scaled
    EmuMaxLinks,    \* MAX_SYMLINK_TRAVERSALS of the emulation (128), scaled
    KRetry,         \* EAGAIN retries of openat2::resolve (16), scaled
    MaxAttack,      \* attacker mutation budget
    AtkNames,       \* names the attacker may create / rename to
    AtkBodies,      \* symlink bodies the attacker may create
    AtkKinds,       \* subset of {"rename", "exchange", "unlink", "symlink", "mkdir"}
    \* mechanism switches (all TRUE = the code as written); see DESIGN.md 4.3
    ChkAfterDotDot, ChkFinal, ClampDotDot, RestartAbsAtRoot, NoFollowOnOpen, TrailingSlashIsDirTest,
    EmptyPathIsENOENT, EmitCases

VARIABLES
    fs, tree, path, op, backend,   \* the case
    pc, cur, exp, rem, ntrav, nxt, part, rootPath, retries,
    res,                            \* final outcome, [ok, ino|err|body]
    everIn, natk, nsteps

vars == <<fs, tree, path, op, backend, pc, cur, exp, rem, ntrav, nxt, part, rootPath, retries, res, everIn, natk, nsteps>>

Ino == 1..MaxIno

BaseDents == {<<P, "root", R>>, <<P, "out", O>>, <<O, "secret", SECRET>>}
MkFs(nodes) ==
    [dents |-> BaseDents \cup {<<nodes[i].p, nodes[i].n, nodes[i].id>> : i \in DOMAIN nodes},
     kind  |-> [i \in Ino |->
                  IF i \in {P, R, O} THEN "dir"
                  ELSE IF i = SECRET THEN "file"
                  ELSE IF \E j \in DOMAIN nodes : nodes[j].id = i
                       THEN nodes[CHOOSE j \in DOMAIN nodes : nodes[j].id = i].k
                       ELSE "free"],
     body  |-> [i \in Ino |->
                  IF \E j \in DOMAIN nodes : nodes[j].id = i /\ nodes[j].k = "lnk"
                  THEN nodes[CHOOSE j \in DOMAIN nodes : nodes[j].id = i].b
                  ELSE <<>>],
     \* directories the (unprivileged) caller of this tree may not search: nodes with a field nx = TRUE
     nox   |-> {nodes[i].id : i \in {j \in DOMAIN nodes : "nx" \in DOMAIN nodes[j] /\ nodes[j].nx}}]

NoRes == [ok |-> FALSE, err |-> "none"]

\* path universe of a tree: all raw component sequences up to its maxlen over the names that
\* occur in it plus "..", ".", "" (so '', '/', '//', 'a//b', 'a/', '/a' are all there) and one
\* name that does not exist
CompsOf(t) == {Trees[t].nodes[i].n : i \in DOMAIN Trees[t].nodes} \cup {"..", ".", "", "nx"}
PathsOf(t) == IF Trees[t].maxlen = 0 THEN Trees[t].extra   \* explicit path list
              ELSE UNION {[1..n -> CompsOf(t)] : n \in 1..Trees[t].maxlen}

Init ==
    /\ tree \in DOMAIN Trees
    /\ fs = MkFs(Trees[tree].nodes)
    /\ path \in PathsOf(tree)
    /\ op \in Ops
    /\ backend \in Backends
    /\ pc = "start" /\ cur = R /\ exp = <<>> /\ rem = <<>> /\ ntrav = 0 /\ nxt = 0
    /\ part = "" /\ rootPath = <<>> /\ retries = 0
    /\ res = NoRes
    /\ everIn = InRootSet(fs)
    /\ natk = 0 /\ nsteps = 0

Finish(r) == /\ res' = r /\ pc' = "done"
Safety    == Err("SAFETY")

IsAbsBody(b) == Len(b) > 1 /\ b[1] = ""
Front(s) == SubSeq(s, 1, Len(s) - 1)

\* does this lookup ask not to follow a trailing link?
WantNoFollow == op.nofollow

(***************************************************************************)
(* Emulated backend: opath::do_resolve                                     *)
(***************************************************************************)
E_Start ==  \* imp.rs:189-212  (dup of the root: no shared-state access)
    /\ pc = "start" /\ backend = "emulated"
    /\ IF EmptyPathIsENOENT /\ IsEmptyPath(path)
       THEN Finish(Err("ENOENT")) /\ UNCHANGED <<cur, exp, rem, ntrav>>
       ELSE /\ cur' = R /\ exp' = <<>> /\ rem' = path /\ ntrav' = 0 /\ pc' = "loop"
            /\ UNCHANGED res
    /\ UNCHANGED <<nxt, part, rootPath, retries>>

\* trailing "/"s are no components: they only ask for a directory (the kernel's LOOKUP_DIRECTORY), answered by an fstat of
\* what has been reached (one per trailing empty component) -- no search permission on it is needed, unlike for ".".
\* While the walk still holds its own duplicate of the root handle (nothing has been opened yet: "/", "//") the code goes
\* through "." instead, so that it never returns that duplicate; the model allows either step at the root inode.
AllEmpty(r) == r # <<>> /\ \A i \in DOMAIN r : r[i] = ""
E_ClassifyTrail ==
    /\ pc = "loop" /\ backend = "emulated" /\ TrailingSlashIsDirTest /\ AllEmpty(rem)
    /\ rem' = Tail(rem) /\ UNCHANGED <<cur, exp, part>>
    /\ IF IsDir(fs, cur) THEN pc' = "loop" /\ UNCHANGED res ELSE Finish(Err("ENOTDIR"))
    /\ UNCHANGED <<ntrav, nxt, rootPath, retries>>
E_ClassifyStep ==  \* imp.rs:213-273  (no syscall)
    /\ pc = "loop" /\ backend = "emulated"
    /\ ~(TrailingSlashIsDirTest /\ AllEmpty(rem) /\ cur # R)
    /\ IF rem = <<>> THEN
            /\ pc' = IF ChkFinal THEN "fin1" ELSE "fin_ok"
            /\ UNCHANGED <<cur, exp, rem, part>>
       ELSE LET p0 == Head(rem)  p == IF p0 = "" THEN "." ELSE p0 IN
            /\ rem' = Tail(rem)
            /\ part' = (IF p = ".." /\ exp = <<>> /\ ClampDotDot THEN "." ELSE p)
            /\ IF p = ".." THEN
                    IF exp = <<>> /\ ClampDotDot
                    \* ".." at the root stays at the root: the walk continues into "." of the root, so that the result is a
                    \* fresh O_PATH description (as openat2 returns) and not a duplicate of the caller's root handle
                    THEN cur' = R /\ pc' = "open" /\ UNCHANGED exp
                    ELSE exp' = (IF exp = <<>> THEN exp ELSE Front(exp)) /\ pc' = "open" /\ UNCHANGED cur
               ELSE IF p = "." THEN pc' = "open" /\ UNCHANGED <<cur, exp>>
               ELSE exp' = Append(exp, p) /\ pc' = "open" /\ UNCHANGED cur
    /\ UNCHANGED <<ntrav, nxt, rootPath, retries, res>>
E_Classify == E_ClassifyTrail \/ E_ClassifyStep

\* openat(current, part, O_PATH|O_NOFOLLOW)            imp.rs:277-296
E_OpenNext ==
    /\ pc = "open" /\ backend = "emulated"
    /\ LET r == OpenatNoFollow(fs, cur, part) IN
       IF ~r.ok THEN Finish(r) /\ UNCHANGED nxt
       ELSE /\ nxt' = (IF NoFollowOnOpen \/ ~IsLnk(fs, r.ino) THEN r.ino
                       ELSE \* a following open lands wherever the link points *on the host*
                            LET k == KWalk(fs, P, cur, Norm(fs.body[r.ino]).comps, 0,
                                           [follow |-> TRUE, dir |-> FALSE, opath |-> TRUE, nosym |-> FALSE], 40)
                            IN IF k.ok THEN k.ino ELSE r.ino)
            /\ pc' = IF part = ".." /\ ChkAfterDotDot THEN "dd1" ELSE "stat"
            /\ UNCHANGED res
    /\ UNCHANGED <<cur, exp, rem, ntrav, part, rootPath, retries>>

\* check_current: three separate d_path reads                  imp.rs:67-132
Chk1(from, to) ==
    /\ pc = from /\ backend = "emulated"
    /\ rootPath' = DPath(fs, R) /\ pc' = to
    /\ UNCHANGED <<cur, exp, rem, ntrav, nxt, part, retries, res>>
Chk2(from, to, which) ==
    /\ pc = from /\ backend = "emulated"
    /\ LET fdp == DPath(fs, IF which = "nxt" THEN nxt ELSE cur) IN
       IF fdp = rootPath \o exp THEN pc' = to /\ UNCHANGED res ELSE Finish(Safety)
    /\ UNCHANGED <<cur, exp, rem, ntrav, nxt, part, rootPath, retries>>
Chk3(from, to) ==
    /\ pc = from /\ backend = "emulated"
    /\ IF DPath(fs, R) = rootPath THEN pc' = to /\ UNCHANGED res ELSE Finish(Safety)
    /\ UNCHANGED <<cur, exp, rem, ntrav, nxt, part, rootPath, retries>>

E_DD1 == Chk1("dd1", "dd2")
E_DD2 == Chk2("dd2", "dd3", "nxt")
E_DD3 == Chk3("dd3", "stat")

\* fstat(next) and the symlink decision                       imp.rs:317-383
E_Stat ==
    /\ pc = "stat" /\ backend = "emulated"
    /\ IF ~IsLnk(fs, nxt) THEN
            cur' = nxt /\ pc' = "loop" /\ UNCHANGED <<ntrav, res>>
       ELSE IF rem = <<>> /\ WantNoFollow THEN
            cur' = nxt /\ pc' = (IF ChkFinal THEN "fin1" ELSE "fin_ok") /\ UNCHANGED <<ntrav, res>>
       ELSE IF op.nosym THEN
            Finish(Err("ELOOP")) /\ UNCHANGED <<cur, ntrav>>
       ELSE pc' = "mayfollow" /\ UNCHANGED <<cur, ntrav, res>>
    /\ UNCHANGED <<exp, rem, nxt, part, rootPath, retries>>

\* may_follow_link (fs.protected_symlinks: two fstat calls, trailing links only -- its verdict is the
\* subject of Psl.tla; trees of this model have link owner = caller) and then the link budget   imp.rs:360-383
E_Budget ==
    /\ pc = "mayfollow" /\ backend = "emulated"
    /\ ntrav' = ntrav + 1
    /\ IF ntrav + 1 >= EmuMaxLinks THEN Finish(Err("ELOOP")) ELSE pc' = "readlink" /\ UNCHANGED res
    /\ UNCHANGED <<cur, exp, rem, nxt, part, rootPath, retries>>

\* readlinkat(next, "") -- the body of the *opened* inode     imp.rs:385-445
E_Readlink ==
    /\ pc = "readlink" /\ backend = "emulated"
    /\ LET b == fs.body[nxt] IN
       /\ rem' = b \o rem
       /\ IF IsAbsBody(b) /\ RestartAbsAtRoot
          THEN cur' = R /\ exp' = <<>>
          ELSE exp' = Front(exp) /\ UNCHANGED cur
    /\ pc' = "loop"
    /\ UNCHANGED <<ntrav, nxt, part, rootPath, retries, res>>

E_Fin1 == Chk1("fin1", "fin2")
E_Fin2 == Chk2("fin2", "fin3", "cur")
E_Fin3 == Chk3("fin3", "fin_ok")

(***************************************************************************)
(* What happens with the resolved handle: resolve returns it; readlink     *)
(* reads the body of that inode; the one-shot open re-opens it             *)
(* (resolvers.rs:234-270, utils/fd.rs reopen: the reopen goes through the  *)
(* fd magic-link and therefore addresses the inode, not a name).           *)
(***************************************************************************)
PostResolve(i) ==
    IF op.op = "resolve" THEN Ok(i)
    ELSE IF op.op = "readlink" THEN
        IF IsLnk(fs, i) THEN [ok |-> TRUE, body |-> fs.body[i], ino |-> i] ELSE Err("ENOENT")   \* readlinkat(fd, "") on a non-link
    ELSE \* "open"
        IF IsLnk(fs, i) THEN
            IF op.odir THEN Err("ENOTDIR")
            ELSE IF op.acc = "PATH" THEN Ok(i)
            ELSE Err("ELOOP")
        ELSE IF op.odir /\ ~IsDir(fs, i) THEN Err("ENOTDIR")
        ELSE OpenPhase(fs, Ok(i), op.acc, op.odir, FALSE)

E_Done ==
    /\ pc = "fin_ok" /\ backend = "emulated"
    /\ Finish(PostResolve(cur))
    /\ UNCHANGED <<cur, exp, rem, ntrav, nxt, part, rootPath, retries>>

(***************************************************************************)
(* Kernel backend: one openat2 per attempt, atomic in the kernel, which    *)
(* may answer EAGAIN when a rename raced with a ".." step                  *)
(* (openat2.rs:57-75 one-shot open, 104-133 resolve).                     *)
(***************************************************************************)
KFlags == [follow |-> ~WantNoFollow,
           dir    |-> (op.op = "open" /\ op.odir),
           opath  |-> (op.op # "open" \/ op.acc = "PATH"),
           nosym  |-> op.nosym]
KAnswerN(f, maxlinks) ==
    LET r == KResolve(f, R, path, KFlags, maxlinks) IN
    IF op.op = "open" THEN OpenPhase(f, r, op.acc, op.odir, FALSE)
    ELSE IF op.op = "readlink" THEN
        IF r.ok THEN (IF IsLnk(f, r.ino) THEN [ok |-> TRUE, body |-> f.body[r.ino], ino |-> r.ino] ELSE Err("ENOENT")) ELSE r
    ELSE r
KAnswer(f) == KAnswerN(f, KMaxLinks)

K_Openat2 ==
    /\ pc = "start" /\ backend = "kernel"
    /\ \/ Finish(KAnswer(fs)) /\ UNCHANGED retries
       \/ \* EAGAIN: only when something raced
          /\ natk > 0
          \* resolve and (since fix 235d3ae) the one-shot open both retry KRetry times, then report a safety violation
          /\ IF retries + 1 >= KRetry THEN Finish(Safety) /\ retries' = retries + 1
             ELSE retries' = retries + 1 /\ UNCHANGED <<pc, res>>
    /\ UNCHANGED <<cur, exp, rem, ntrav, nxt, part, rootPath>>

LibStep ==
    \/ E_Start \/ E_Classify \/ E_OpenNext \/ E_DD1 \/ E_DD2 \/ E_DD3 \/ E_Stat \/ E_Budget \/ E_Readlink
    \/ E_Fin1 \/ E_Fin2 \/ E_Fin3 \/ E_Done \/ K_Openat2

(***************************************************************************)
(* The attacker: single kernel-atomic mutations anywhere except on the     *)
(* root's own dentry and its ancestors (a moving root is out of contract). *)
(***************************************************************************)
Movable(e) == e[3] \notin {P, R} /\ e \notin {<<P, "root", R>>}
DirsOf(f)  == {i \in Ino : f.kind[i] = "dir" /\ (Linked(f, i) \/ i = P)}
FreeIno(f) == {i \in Ino : f.kind[i] = "free"}

A_Rename ==
    \E e \in fs.dents, dd \in DirsOf(fs), dn \in AtkNames :
        /\ Movable(e)
        /\ ~HasChild(fs, dd, dn)
        /\ LET r == Renameat(fs, e[1], e[2], dd, dn, "") IN
           r.res.ok /\ fs' = r.fs
A_Exchange ==
    \E e1 \in fs.dents, e2 \in fs.dents :
        /\ Movable(e1) /\ Movable(e2) /\ e1 # e2
        /\ LET r == Renameat(fs, e1[1], e1[2], e2[1], e2[2], "EXCHANGE") IN
           r.res.ok /\ fs' = r.fs
A_Unlink ==
    \E e \in fs.dents :
        /\ Movable(e)
        /\ LET r == IF IsDir(fs, e[3]) THEN Rmdirat(fs, e[1], e[2]) ELSE Unlinkat(fs, e[1], e[2]) IN
           r.res.ok /\ fs' = r.fs
A_Symlink ==
    /\ FreeIno(fs) # {}
    /\ \E d \in DirsOf(fs), n \in AtkNames, b \in AtkBodies :
        LET new == CHOOSE i \in FreeIno(fs) : \A j \in FreeIno(fs) : i <= j
            r   == Symlinkat(fs, d, n, new, b) IN
        r.res.ok /\ fs' = r.fs
A_Mkdir ==
    /\ FreeIno(fs) # {}
    /\ \E d \in DirsOf(fs), n \in AtkNames :
        LET new == CHOOSE i \in FreeIno(fs) : \A j \in FreeIno(fs) : i <= j
            r   == Mkdirat(fs, d, n, new) IN
        r.res.ok /\ fs' = r.fs

Attack ==
    /\ natk < MaxAttack /\ pc \notin {"done"}
    /\ \/ "rename" \in AtkKinds /\ A_Rename
       \/ "exchange" \in AtkKinds /\ A_Exchange
       \/ "unlink" \in AtkKinds /\ A_Unlink
       \/ "symlink" \in AtkKinds /\ A_Symlink
       \/ "mkdir" \in AtkKinds /\ A_Mkdir
    /\ natk' = natk + 1
    /\ UNCHANGED <<tree, path, op, backend, pc, cur, exp, rem, ntrav, nxt, part, rootPath, retries, res, nsteps>>

Next ==
    \/ /\ pc # "done" /\ LibStep /\ nsteps' = nsteps + 1
       /\ UNCHANGED <<fs, tree, path, op, backend, natk>>
       /\ everIn' = everIn
    \/ Attack /\ everIn' = everIn \cup InRootSet(fs')

Spec == Init /\ [][Next]_vars

(***************************************************************************)
(* Properties                                                              *)
(***************************************************************************)
Oracle == KAnswer(MkFs(Trees[tree].nodes))
BudgetELOOP ==
    \* did the kernel walk fail only because of its (smaller) link budget?
    LET big == KResolve(MkFs(Trees[tree].nodes), R, path, KFlags, EmuMaxLinks + 2) IN
    ~Oracle.ok /\ Oracle.err = "ELOOP" /\ (big.ok \/ big.err # "ELOOP")

\* C01: on a static tree every lookup answers what kernel in-root resolution answers
AgreesWithKernel ==
    (pc = "done" /\ natk = 0 /\ ~BudgetELOOP) => res = Oracle
\* C01: a successful lookup is inside the root
InRoot ==
    (pc = "done" /\ natk = 0 /\ res.ok) => res.ino \in InRootSet(fs)
\* C01: loops end (every behaviour is finite: nsteps is bounded by path, bodies and budget)
StepBound == 8 + 12 * (3 + EmuMaxLinks) * 4
Bounded == nsteps <= StepBound
\* C02: under any attacker schedule a success (and the link body read) is an object that was
\* reachable from the root at some moment during the call
Contained ==
    (pc = "done" /\ res.ok) => res.ino \in everIn

TypeOK == pc \in {"start", "loop", "open", "dd1", "dd2", "dd3", "stat", "mayfollow", "readlink", "fin1", "fin2", "fin3", "fin_ok", "done"}

(***************************************************************************)
(* Case export: one JSON line per explored (tree, path, op) with the       *)
(* kernel-model oracle's answer; replayed against the real library.        *)
(***************************************************************************)
ASSUME EmitCases => PrintT(<<"TREES", ToJson(Trees)>>)

CaseOut ==
    (EmitCases /\ pc = "done" /\ backend = "emulated" /\ natk = 0) =>
        PrintT(<<"CASE", ToJson([tree |-> Trees[tree].name, path |-> path, op |-> op,
                                  expect |-> Oracle, model |-> res, budget |-> BudgetELOOP,
                                  \* the answer of a walk whose link budget never bites (what a success beyond the kernel's 40 must be)
                                  free |-> KAnswerN(MkFs(Trees[tree].nodes), EmuMaxLinks + 2)])>>)
=============================================================================
