------------------------------ MODULE ProcClass ------------------------------
(***************************************************************************)
(* C07, class level: expected outcome of a procfs lookup as a function of  *)
(* the CLASS of the entry it names (file, dir, ordinary procfs symlink,    *)
(* magic-link), the decoration of the path and the operation.  The live    *)
(* contents of /proc, /proc/self and /proc/thread-self are classified by   *)
(* the harness (lstat) and every entry is looked up with every decoration  *)
(* and operation through both procfs resolvers; this table (enumerated by  *)
(* TLC) is the oracle, the resolvers are each other's second opinion.      *)
(*   outcomes: "self" (the entry itself), "target" (what the link points   *)
(*   to), "body" (link text), or an error class; "ERR" = any error.        *)
(***************************************************************************)
EXTENDS Naturals, Sequences, FiniteSets, TLC, Json

Kinds == {"file", "dir", "symdir", "symfile", "magic"}     \* ordinary procfs symlinks by the type of their target
Decos == {"", "/", "/.", "/..", "/nx-child", "./", "/..NUL", "/./../.."}   \* "/./../..": two ".." after the entry and a "." -- climbs above the base    \* "/..NUL": a ".." component followed by a NUL byte (Rust API only)
Ops   == {"open_rdonly", "open_path", "open_dir", "open_follow_path", "open_follow_dir", "readlink", "open_creat", "open_follow_creat", "open_tmpfile",
          "open_follow_nf_path", "open_follow_nf_rdonly", "open_excl", "open_follow_excl", "open_follow_creat_excl",
          "open_follow_tmpbit"}      \* the bare __O_TMPFILE bit: with a trailing slash (which means O_DIRECTORY) it IS O_TMPFILE     \* open_follow called WITH O_NOFOLLOW: the caller refused the trailing link, so it behaves like open
\* an explicit O_NOFOLLOW makes open_follow the same operation as open
Canon(o) == IF o = "open_follow_nf_path" THEN "open_path" ELSE IF o = "open_follow_nf_rdonly" THEN "open_rdonly" ELSE o

\* does the decorated path still name the entry as its final component?
Final(d) == d \in {"", "./"}

ExpectC(k, d, o) ==
    IF o \in {"open_creat", "open_follow_creat", "open_tmpfile", "open_excl", "open_follow_excl", "open_follow_creat_excl", "open_follow_tmpbit"}
    THEN "InvalidArgument"          \* creation flags (each of O_CREAT, O_EXCL, O_TMPFILE) refused up front
    ELSE IF d = "/./../.." THEN (IF k \in {"dir", "symdir"} THEN "ERR-or-inside" ELSE "ERR")
         \* two levels up: still beneath the base only for deep link targets (thread-self -> PID/task/TID from the root);
         \* what "inside" means is decided by openat2's RESOLVE_BENEATH, see the resolver-agreement rule of the check
    ELSE IF d = "/..NUL" THEN "ERR"          \* never a truncated path: an interior NUL is an error in both resolvers
    ELSE IF d = "/.." THEN (IF k \in {"dir", "symdir"} THEN "ERR-or-inside" ELSE "ERR")
         \* ".." never leaves procfs: the emulated resolver refuses it outright (EXDEV); openat2 with
         \* RESOLVE_BENEATH allows "dir/.." because it stays beneath the base; through a non-directory it is an error
    ELSE IF k = "magic" /\ ~Final(d) THEN
        (IF o \in {"open_follow_path", "open_follow_dir"} /\ d = "/" THEN "target-or-ENOTDIR"     \* "link/" = follow + O_DIRECTORY
         ELSE "ELOOP")                                                           \* magic-link as a path component
    ELSE IF k = "file" THEN
        (IF ~Final(d) THEN "ENOTDIR"
         ELSE IF o \in {"open_dir", "open_follow_dir"} THEN "ENOTDIR"
         ELSE IF o = "readlink" THEN "ENOENT" ELSE "self")
    ELSE IF k = "dir" THEN
        (IF d = "/nx-child" THEN "ENOENT"
         ELSE IF o = "readlink" THEN "ENOENT" ELSE "self")
    ELSE IF k = "symfile" /\ ~Final(d) THEN "ENOTDIR"                            \* "link-to-file/..." walks through it into a non-directory
    ELSE IF k \in {"symdir", "symfile"} THEN
        (IF d = "/nx-child" THEN "ENOENT"
         ELSE IF ~Final(d) THEN (IF o = "readlink" THEN "ENOENT" ELSE "target")       \* "link/" and "link/." walk through it
         ELSE IF o = "open_rdonly" THEN "ELOOP"
         ELSE IF o = "open_path" THEN "self"
         ELSE IF o = "open_dir" THEN "ENOTDIR"
         ELSE IF o = "readlink" THEN "body"
         ELSE IF o = "open_follow_dir" /\ k = "symfile" THEN "ENOTDIR" ELSE "target")
    ELSE \* magic, final
        (IF o = "open_rdonly" THEN "ELOOP"
         ELSE IF o = "open_path" THEN "self"
         ELSE IF o = "open_dir" THEN "ENOTDIR"
         ELSE IF o = "readlink" THEN "body"
         ELSE IF o = "open_follow_dir" THEN "target-or-ENOTDIR" ELSE "target")

Expect(k, d, o) ==
    \* "link/" + O_NOFOLLOW through open_follow: the trailing slash becomes O_DIRECTORY on the final no-follow open of the
    \* link itself, which is not a directory (open, by contrast, walks through "link/" in its resolver)
    IF o \in {"open_follow_nf_path", "open_follow_nf_rdonly"} /\ d = "/" /\ k \in {"symdir", "symfile", "magic"} THEN "ENOTDIR"
    ELSE ExpectC(k, d, Canon(o))

VARIABLE x
Spec == x = 0 /\ [][x' = x]_x
\* sanity: open (forced O_NOFOLLOW) and readlink never yield the target of a trailing link
OpenNeverFollowsTrailing == \A k \in {"symdir", "symfile", "magic"}, d \in {"", "./"}, o \in {"open_rdonly", "open_path", "open_dir", "readlink", "open_follow_nf_path", "open_follow_nf_rdonly"} : Expect(k, d, o) # "target"
FollowOnlyTrailing == \A d \in Decos \ {"", "./", "/"} : \A o \in Ops : Expect("magic", d, o) \in {"ELOOP", "ERR", "InvalidArgument"}
Inv == OpenNeverFollowsTrailing /\ FollowOnlyTrailing
ASSUME PrintT(<<"CASES", ToJson({[k |-> k, d |-> d, o |-> o, e |-> Expect(k, d, o)] : k \in Kinds, d \in Decos, o \in Ops})>>)
=============================================================================
