---- MODULE MC_Mkdir2 ----
EXTENDS Mkdir2
N(id, pp, nm, kd, bd) == [id |-> id, p |-> pp, n |-> nm, k |-> kd, b |-> bd]
Nodes1 == << N(5, R, "a", "dir", <<>>), N(6, 5, "b", "dir", <<>>), N(7, R, "la", "lnk", <<"a", "b">>), N(8, R, "f", "file", <<>>) >>
\* scenarios mirror checks/mkrm.py CONC_CALLS
S1 == [nodes |-> Nodes1, firstFree |-> 9, paths |-> [p1 |-> <<"a", "b", "x", "y", "z">>, p2 |-> <<"a", "b", "x", "y", "z">>]]
S2 == [nodes |-> Nodes1, firstFree |-> 9, paths |-> [p1 |-> <<"la", "x", "y">>, p2 |-> <<"a", "b", "x", "w">>]]
S3 == [nodes |-> Nodes1, firstFree |-> 9, paths |-> [p1 |-> <<"n1", "n2", "n3">>, p2 |-> <<"n1", "n2">>]]
S4 == [nodes |-> Nodes1, firstFree |-> 9, paths |-> [p1 |-> <<"a", "..", "a", "b", "q", "r">>, p2 |-> <<"a", "b", "q">>]]
S5 == [nodes |-> Nodes1, firstFree |-> 9, paths |-> [p1 |-> <<"n1", "n2">>, p2 |-> <<"n1", "n2">>, p3 |-> <<"n1", "m">>]]
\* dot-links in the existing prefix (the SymlinkStack of the emulated backend must drop "." components)
Nodes2 == Nodes1 \o << N(9, R, "ld", "lnk", <<".", "a", ".", "b">>), N(10, 5, "up", "lnk", <<"..", "a", "b", ".">>) >>
S7 == [nodes |-> Nodes2, firstFree |-> 11, paths |-> [p1 |-> <<"ld", "x", "y">>, p2 |-> <<"a", "up", "x", "z">>]]
\* a missing component followed by "..": safe only because ".." is refused in the not-yet-existing tail
S6 == [nodes |-> Nodes1, firstFree |-> 9, paths |-> [p1 |-> <<"a", "nx", "..", "..", "..", "pwned">>, p2 |-> <<"a">>]]
const_NoNames == {}
const_NxNames == {"nx"}
====
