---- MODULE MC_TraceLookup ----
EXTENDS TraceLookup
const_NoTrees == <<>>
const_NoOps == {}
const_NoNames == {}
====
