SPECIFICATION Spec
INVARIANT Inv
CHECK_DEADLOCK FALSE
