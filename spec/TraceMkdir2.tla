----------------------------- MODULE TraceMkdir2 -----------------------------
(***************************************************************************)
(* Action-level conformance of the real Root::mkdir_all (openat2 backend)  *)
(* with Mkdir2.tla.  The relevant system calls of one or two real library  *)
(* processes (recorded and scheduled by the ptrace supervisor) must be a   *)
(* behaviour of the specification:                                         *)
(*   openat2(root, path)      = Try(p): the path must be the attempt the    *)
(*                              model makes next (full path, then each      *)
(*                              ancestor), and the result the model's       *)
(*   mkdirat(dir, name)       = Mk(p): same directory inode, same name,     *)
(*                              same result (EEXIST included), same new     *)
(*                              inode                                       *)
(*   openat(dir, name)        = Open(p)                                     *)
(*   END of the call          = the model's result for that caller          *)
(* Reopen (classification of the partial lookup; its system calls go       *)
(* through procfs) and the final failing Try are silent model steps; the   *)
(* fstat / d_path reads of the reopen are consumed as stuttering.          *)
(* The design invariants of Mkdir2 are evaluated on every model state the  *)
(* real trace drives.                                                      *)
(* A rejected trace is model drift (evidence), not an alarm.               *)
(***************************************************************************)
EXTENDS Mkdir2, Partial, Json, IOUtils, TLC

Rec == ndJsonDeserialize(IOEnv.TRACE)
ToSetL(s) == {s[i] : i \in DOMAIN s}

VARIABLES l,
          emu      \* TRUE: the recorded case ran on the emulated backend (openat2 masked)
tvars == <<vars, l, emu>>

PName(i) == IF i = 0 THEN "p1" ELSE "p2"
FsOf(e) ==
    [dents |-> {<<d[1], d[2], d[3]>> : d \in ToSetL(e.dents)},
     kind  |-> [i \in Ino |-> IF \E x \in ToSetL(e.inodes) : x[1] = i THEN (CHOOSE x \in ToSetL(e.inodes) : x[1] = i)[2] ELSE "free"],
     body  |-> [i \in Ino |-> IF \E x \in ToSetL(e.inodes) : x[1] = i THEN (CHOOSE x \in ToSetL(e.inodes) : x[1] = i)[3] ELSE <<>>]]

E == Rec[l]
Consume == l' = l + 1
Live(e) == {PName(i - 1) : i \in 1..Len(e.paths)}

TraceInit ==
    /\ l = 1 /\ emu = FALSE
    /\ fs = [dents |-> {}, kind |-> [i \in Ino |-> "free"], body |-> [i \in Ino |-> <<>>]] /\ fs0 = fs
    /\ pth = [p \in Procs |-> <<".">>]
    /\ pc = [p \in Procs |-> "idle"] /\ k = [p \in Procs |-> 1] /\ lasterr = [p \in Procs |-> ""]
    /\ cur = [p \in Procs |-> R] /\ parts = [p \in Procs |-> <<>>] /\ res = [p \in Procs |-> Ok(R)]
    /\ nextIno = 5 /\ who = "" /\ natk = 0 /\ everIn = {} /\ outsideMk = FALSE

\* a new recorded case: tree, callers' paths, first free inode number
T_Init ==
    /\ l <= Len(Rec) /\ E.ev = "init" /\ Consume /\ emu' = (E.d2 = 0)
    /\ fs' = FsOf(E) /\ fs0' = FsOf(E)
    /\ pth' = [p \in Procs |-> IF p \in Live(E) THEN E.paths[IF p = "p1" THEN 1 ELSE 2] ELSE <<".">>]
    /\ pc' = [p \in Procs |-> IF p \in Live(E) THEN "try" ELSE "done"]
    /\ k' = [p \in Procs |-> 1] /\ lasterr' = [p \in Procs |-> ""]
    /\ cur' = [p \in Procs |-> R] /\ parts' = [p \in Procs |-> <<>>]
    /\ res' = [p \in Procs |-> IF p \in Live(E) THEN Err("none") ELSE Ok(R)]
    /\ nextIno' = E.rid /\ who' = "" /\ natk' = 0 /\ everIn' = ReachFrom(FsOf(E), {R}) /\ outsideMk' = FALSE

Step(p) == LibStep(p) /\ everIn' = everIn \cup ReachFrom(fs', {R}) /\ pth' = pth

\* silent model steps: the partial lookup ran out of ancestors; classification of the lookup result
Silent ==
    /\ \E p \in Procs :
         /\ \/ pc[p] = "reopen"
            \/ pc[p] = "try" /\ k[p] > Len(Attempts(Path(p))) /\ ~emu
         /\ Step(p)
    /\ UNCHANGED <<l, emu>>

\* emulated backend: the whole walk of opath::resolve_partial is one model step whose result is PartialE (the
\* SymlinkStack model of Partial.tla); its recorded system calls are consumed as stuttering before it.  The result is
\* bound to the implementation's by the very next recorded call: mkdirat(dir, name) must use PartialE's directory and
\* first remaining component.  (One process only: the walk is not atomic with respect to another caller.)
T_Walk ==
    /\ l <= Len(Rec) /\ E.ev = "sys" /\ E.nr \in {"openat", "fstat", "readlink", "dpath"} /\ Consume
    /\ emu /\ pc[PName(E.who)] = "try"
    /\ UNCHANGED <<vars, emu>>
TryE ==
    /\ emu /\ pc["p1"] = "try"
    /\ LET r == PartialE(fs, Path("p1")) IN
       IF ~r.ok THEN /\ res' = [res EXCEPT !["p1"] = Err(r.err)] /\ pc' = [pc EXCEPT !["p1"] = "done"] /\ UNCHANGED <<cur, parts, lasterr>>
       ELSE /\ cur' = [cur EXCEPT !["p1"] = r.ino] /\ parts' = [parts EXCEPT !["p1"] = r.rem] /\ lasterr' = [lasterr EXCEPT !["p1"] = r.lasterr]
            /\ pc' = [pc EXCEPT !["p1"] = "reopen"] /\ UNCHANGED res
    /\ who' = "p1"
    /\ UNCHANGED <<fs, fs0, pth, k, nextIno, natk, everIn, outsideMk, l, emu>>

\* openat2 answered EAGAIN (a rename or mount somewhere on the machine moved the kernel's seqlocks): the
\* implementation repeats the same attempt (src/resolvers/openat2.rs, up to 16 times); no model step
T_TryAgain ==
    /\ l <= Len(Rec) /\ E.ev = "sys" /\ E.nr = "openat2" /\ E.flag = "EAGAIN" /\ Consume
    /\ LET p == PName(E.who) IN
       /\ pc[p] = "try" /\ k[p] <= Len(Attempts(Path(p))) /\ ~emu
       /\ E.body = Attempts(Path(p))[k[p]].anc
    /\ UNCHANGED <<vars, emu>>
T_Try ==
    /\ l <= Len(Rec) /\ E.ev = "sys" /\ E.nr = "openat2" /\ E.flag # "EAGAIN" /\ Consume
    /\ LET p == PName(E.who) IN
       /\ pc[p] = "try" /\ k[p] <= Len(Attempts(Path(p))) /\ ~emu
       /\ E.body = Attempts(Path(p))[k[p]].anc                     \* the path the implementation asked the kernel for
       /\ LET r == KResolve(fs, R, Attempts(Path(p))[k[p]].anc, FollowFlags, KMaxLinks) IN
            IF E.ret >= 0 THEN r.ok /\ r.ino = E.rid ELSE ~r.ok /\ r.err = E.flag
       /\ Step(p)
    /\ UNCHANGED emu
T_Mk ==
    /\ l <= Len(Rec) /\ E.ev = "sys" /\ E.nr = "mkdirat" /\ Consume
    /\ LET p == PName(E.who) IN
       /\ pc[p] = "mk" /\ E.d1 = cur[p] /\ E.n1 = Head(parts[p])
       /\ LET m == Mkdirat(fs, cur[p], Head(parts[p]), nextIno) IN
            IF E.ret = 0 THEN m.res.ok /\ E.rid = nextIno ELSE ~m.res.ok /\ m.res.err = E.flag
       /\ Step(p)
    /\ UNCHANGED emu
T_Open ==
    /\ l <= Len(Rec) /\ E.ev = "sys" /\ E.nr = "openat" /\ Consume
    /\ LET p == PName(E.who) IN
       /\ pc[p] = "open" /\ E.d1 = cur[p] /\ E.n1 = Head(parts[p])
       /\ LET o == OpenatNoFollow(fs, cur[p], Head(parts[p])) IN
            IF E.ret >= 0 THEN o.ok /\ o.ino = E.rid ELSE (~o.ok /\ o.err = E.flag) \/ (o.ok /\ ~IsDir(fs, o.ino) /\ E.flag = "ENOTDIR")
       /\ Step(p)
    /\ UNCHANGED emu
\* fstat / d_path reads of the reopen: no model counterpart
T_Stutter ==
    /\ l <= Len(Rec) /\ E.ev = "sys" /\ E.nr \in {"fstat", "dpath"} /\ Consume
    /\ pc[PName(E.who)] \in {"reopen", "mk", "done"}
    /\ UNCHANGED <<vars, emu>>
T_End ==
    /\ l <= Len(Rec) /\ E.ev = "end" /\ Consume
    /\ LET p == PName(E.who) IN
       /\ pc[p] = "done"
       /\ (E.ret = 0) = res[p].ok
       /\ IF res[p].ok THEN res[p].ino = E.rid ELSE (res[p].err = E.flag \/ (res[p].err = "INTERNAL" /\ E.flag = "InternalError"))
    /\ UNCHANGED <<vars, emu>>
T_Skip ==
    /\ l <= Len(Rec) /\ E.ev = "snap" /\ Consume
    /\ AllDone
    \* the real final tree is the model's final tree
    /\ fs.dents = FsOf(E).dents
    /\ UNCHANGED <<vars, emu>>

TraceNext == T_Init \/ Silent \/ T_Walk \/ TryE \/ T_TryAgain \/ T_Try \/ T_Mk \/ T_Open \/ T_Stutter \/ T_End \/ T_Skip
TraceSpec == TraceInit /\ [][TraceNext]_tvars

Progress == TLCSet(1, IF TLCGet(1) > l THEN TLCGet(1) ELSE l)
ASSUME TLCSet(1, 0)
Accepted ==
    /\ PrintT(<<"CONSUMED", ToJson([lines |-> Len(Rec), diameter |-> TLCGet(1)])>>)
    /\ TRUE
=============================================================================
