---- MODULE MC_ErrTable ----
EXTENDS ErrTable
const_Ids == {-4098, -4097, -4096}
====
