SPECIFICATION Spec
CONSTANTS
  MaxLen = 12
  Slack = 3
INVARIANT Inv
CHECK_DEADLOCK FALSE
