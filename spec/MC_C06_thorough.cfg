SPECIFICATION Spec
CONSTANTS
  HandleKinds = {"fsopen", "fsopen_subset", "open_tree", "open_tree_rec", "open", "userfd_open"}
  Resolvers = {"openat2", "opath"}
  MaxMounts = 2
  EmitCases = FALSE
  ChkEachStep = TRUE
  ChkFinal = TRUE
  ChkLinkDentry = TRUE
  ChkBase = TRUE
INVARIANTS TypeOK Genuine NoLeave MagicComponentRefused OpenNeverFollows
CHECK_DEADLOCK FALSE
