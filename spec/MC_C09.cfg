SPECIFICATION Spec
CONSTANTS
  Kinds = {"file", "dir", "fifo", "lnk"}
  Accs = {"RDONLY", "WRONLY", "RDWR", "PATH"}
  Extras = {"", "DIRECTORY", "APPEND", "NOFOLLOW", "TRUNC", "CREAT", "EXCL", "CREAT|EXCL", "TMPFILE", "NOATIME", "SYNC"}
  Numbers = {0, 1, 100, 999}
  Histories = {"none", "rename", "unlink", "replace", "rename+unlink", "rename+replace"}
  EmitCases = TRUE
  NumberMustBePositive = FALSE
INVARIANTS IndependentOfNumber CaseOut
CHECK_DEADLOCK FALSE
