---- MODULE MC_TraceMkdir2 ----
EXTENDS TraceMkdir2
const_NoScn == [nodes |-> <<>>, firstFree |-> 5, paths |-> [p \in {"p1", "p2"} |-> <<>>]]
const_NoNames == {}
====
