------------------------------ MODULE TraceErr ------------------------------
(***************************************************************************)
(* Trace validation for C16: call/return intervals of failing C-API calls  *)
(* and of pathrs_errorinfo() calls on several threads (stamped from one    *)
(* atomic counter) must be linearizable with respect to the error table of *)
(* ErrTable.tla: every operation takes effect atomically (under the        *)
(* table's mutex) somewhere between its start and its end event.           *)
(*   store(id, tag)   requires id vacant (the code retries on Occupied),   *)
(*                    id <= -4096                                          *)
(*   consume(id)      returns the stored tag or NULL and removes it        *)
(* The linearization point is an internal step (Lin) that TLC places; the  *)
(* trace is accepted iff some placement consumes all events.  "birthday"   *)
(* records (many ids outstanding at once) are checked arithmetically.      *)
(***************************************************************************)
EXTENDS Integers, Sequences, FiniteSets, TLC, Json, IOUtils

Rec == ndJsonDeserialize(IOEnv.TRACE)

VARIABLES l, table, pend, bad, hist
vars == <<l, table, pend, bad, hist>>

NULL == 0
Init == l = 1 /\ table = [i \in {} |-> 0] /\ pend = [t \in {} |-> 0] /\ bad = <<>> /\ hist = ""

V(what, e) == [prop |-> "C16", what |-> what, case |-> e.case, line |-> l, id |-> e.id, tag |-> e.tag]

\* consume the next logged event
Event ==
    /\ l <= Len(Rec)
    /\ LET e == Rec[l] IN
       CASE e.ev = "reset" ->
              /\ table' = [i \in {} |-> 0] /\ pend' = [t \in {} |-> 0] /\ hist' = e.case
              /\ bad' = bad /\ l' = l + 1
         [] e.ev = "start" ->
              \* the operation is now pending on its thread, not yet linearized
              /\ pend' = [t \in DOMAIN pend \cup {e.t} |-> IF t = e.t THEN [op |-> e.op, id |-> e.id, tag |-> e.tag, done |-> FALSE, res |-> 0] ELSE pend[t]]
              /\ UNCHANGED <<table, bad, hist>> /\ l' = l + 1
         [] e.ev = "end" ->
              \* must have been linearized, with the logged result
              /\ e.t \in DOMAIN pend /\ pend[e.t].done
              /\ (e.op = "cons" => pend[e.t].res = e.got)
              /\ bad' = IF e.op = "fail" /\ e.id > -4096 THEN Append(bad, V("error id is not below -4095", e))
                        ELSE IF e.op = "cons" /\ e.got # NULL /\ e.errno # e.want_errno THEN Append(bad, V("errorinfo returned another errno than that failure's", e))
                        ELSE IF e.op = "cons" /\ e.got # NULL /\ ~e.second_null THEN Append(bad, V("second pathrs_errorinfo() for the same id did not return NULL", e))
                        ELSE bad
              /\ UNCHANGED <<table, pend, hist>> /\ l' = l + 1
         [] e.ev = "birthday" ->
              /\ bad' = (IF e.dups > 0 THEN <<V("ids handed out while still unconsumed are not pairwise distinct", e)>> ELSE <<>>)
                     \o (IF e.max > -4096 THEN <<V("error id is not below -4095", e)>> ELSE <<>>)
                     \o (IF e.first_ok # e.n THEN <<V("not every outstanding id yielded exactly its one error", e)>> ELSE <<>>)
                     \o (IF e.second_non_null > 0 THEN <<V("second pathrs_errorinfo() returned an error", e)>> ELSE <<>>)
                     \o bad
              /\ UNCHANGED <<table, pend, hist>> /\ l' = l + 1
         [] OTHER -> UNCHANGED <<table, pend, bad, hist>> /\ l' = l + 1

\* internal: the pending operation of thread t takes effect now
Lin ==
    \E t \in DOMAIN pend :
        /\ ~pend[t].done
        /\ LET p == pend[t] IN
           IF p.op = "fail" THEN
                /\ p.id \notin DOMAIN table           \* store_error only ever inserts into a vacant slot
                /\ table' = [i \in DOMAIN table \cup {p.id} |-> IF i = p.id THEN p.tag ELSE table[i]]
                /\ pend' = [pend EXCEPT ![t].done = TRUE]
           ELSE /\ pend' = [pend EXCEPT ![t].done = TRUE, ![t].res = IF p.id \in DOMAIN table THEN table[p.id] ELSE NULL]
                /\ table' = [i \in DOMAIN table \ {p.id} |-> table[i]]
        /\ UNCHANGED <<l, bad, hist>>

Next == Event \/ Lin
Spec == Init /\ [][Next]_vars

\* progress register: the furthest line any placement reached
Progress == TLCSet(1, IF TLCGet(1) > l THEN TLCGet(1) ELSE l)
ASSUME TLCSet(1, 0)

Accepted ==
    /\ PrintT(<<"CONSUMED", ToJson([lines |-> Len(Rec), diameter |-> TLCGet(1)])>>)
    /\ TLCGet(1) = Len(Rec) + 1
Report == (l = Len(Rec) + 1) => PrintT(<<"REPORT", ToJson([bad |-> bad, kmm |-> <<>>])>>)
=============================================================================
