Logging is disabled (Z3SolverContext.debug = false). Activate with --debug.
