SPECIFICATION Spec
CONSTANTS
  MaxDepth = 6
  RetryOnce = TRUE
INVARIANTS HandlesBounded MissingIsENOENT ExistingIsFound
CHECK_DEADLOCK FALSE
