------------------------------ MODULE ProcRetry ------------------------------
(***************************************************************************)
(* ProcfsHandle::open on masked instances (src/procfs.rs:442-478).         *)
(* A handle is "masked" (is_subset) when /proc/stat or /proc/1 is not      *)
(* visible through it (subset=pid, hidepid=).  On ENOENT a masked handle   *)
(* retries the lookup on a freshly created "unmasked" handle -- which, for *)
(* a caller that cannot create private procfs mounts, is just the host     *)
(* mount again and may be masked too.                                      *)
(*                                                                         *)
(* C08: HandlesBounded (a call creates a constant number of procfs         *)
(*      handles), Terminates, MissingIsENOENT, and -- "report true errors" *)
(*      -- VisibleToPrivilegedIsFound: an entry that exists on an unmasked *)
(*      instance is found by a caller who can create one, also as the      *)
(*      SECOND lookup on a handle (the outcome of a lookup is a function   *)
(*      of handle, host, privilege and path, not of earlier lookups).      *)
(***************************************************************************)
EXTENDS Naturals, Sequences, TLC

CONSTANTS MaxDepth,
          RetryOnce,            \* TRUE: the retry handle does not retry again; FALSE: the pinned snapshot (recursive open())
          RememberENOENT,       \* FALSE = the code; TRUE: a handle whose retry also gave ENOENT never retries again (seeded change C08c)
          UnmaskedViaOpenTree   \* FALSE = the code (fsopen first); TRUE: the "unmasked" handle is an open_tree clone of the host mount (seeded change C08d)

VARIABLES priv, hostopt, ctor, pathkind,     \* the case
          fsopen,                             \* can a privileged caller create NEW procfs instances (fsopen/fsmount)?  If not (seccomp
                                              \* profile, user namespace that does not own the pid namespace) its private handles are
                                              \* open_tree clones of the host mount -- as masked as the host
          stack,                              \* frames of nested open() calls: each [masked]
          nhandles, res, done,
          nextkind,                           \* path kind of a second lookup on the same handle ("none": no second lookup)
          useless                             \* the handle's memory (only with RememberENOENT)

vars == <<priv, hostopt, ctor, pathkind, fsopen, stack, nhandles, res, done, nextkind, useless>>

HostOpts == {"default", "hidepid1", "hidepid2", "ptraceable", "subsetpid"}
\* what a freshly created handle looks like
PrivateInstance(unmasked) == [masked |-> ~unmasked]                \* fsopen: subset=pid unless unmasked
HostMasked == (hostopt = "subsetpid") \/ (hostopt \in {"hidepid1", "hidepid2", "ptraceable"} /\ ~priv)
NewHandle(unmasked) == IF priv THEN (IF ~fsopen \/ (unmasked /\ UnmaskedViaOpenTree) THEN [masked |-> hostopt = "subsetpid"] ELSE PrivateInstance(unmasked))
                       ELSE [masked |-> HostMasked]
FirstHandle == IF ctor = "new" THEN NewHandle(FALSE) ELSE [masked |-> HostMasked]     \* ctor "hostfd": try_from_fd(open("/proc"))

\* does the path exist on a handle?  "missing" never; "masked" only on unmasked instances; "existing" always
Exists(h) == pathkind = "existing" \/ (pathkind = "maskedpath" /\ ~h.masked)

Init ==
    /\ priv \in BOOLEAN /\ fsopen \in BOOLEAN /\ hostopt \in HostOpts /\ ctor \in {"new", "hostfd"} /\ pathkind \in {"existing", "missing", "maskedpath"}
    /\ stack = <<FirstHandle>> /\ nhandles = 1 /\ res = "none" /\ done = FALSE
    /\ nextkind \in {"none", "existing", "missing", "maskedpath"} /\ useless = FALSE

Lookup ==
    /\ ~done /\ stack # <<>>
    /\ LET h == stack[Len(stack)] IN
       IF Exists(h) THEN res' = "ok" /\ done' = TRUE /\ UNCHANGED <<stack, nhandles, useless>>
       ELSE IF h.masked /\ ~useless /\ (~RetryOnce \/ Len(stack) = 1) /\ Len(stack) < MaxDepth THEN
            \* ENOENT on a masked handle: retry on a new "unmasked" handle
            /\ stack' = Append(stack, NewHandle(TRUE)) /\ nhandles' = nhandles + 1
            /\ UNCHANGED <<res, done, useless>>
       ELSE /\ res' = "ENOENT" /\ done' = TRUE /\ UNCHANGED <<stack, nhandles>>
            /\ useless' = (useless \/ (RememberENOENT /\ Len(stack) > 1))
    /\ UNCHANGED <<priv, hostopt, ctor, pathkind, nextkind, fsopen>>

\* a second lookup on the same (first) handle
Again ==
    /\ done /\ nextkind # "none"
    /\ pathkind' = nextkind /\ nextkind' = "none"
    /\ stack' = <<stack[1]>> /\ nhandles' = 1 /\ res' = "none" /\ done' = FALSE
    /\ UNCHANGED <<priv, hostopt, ctor, useless, fsopen>>

Spec == Init /\ [][Lookup \/ Again]_vars

HandlesBounded == nhandles <= 2
MissingIsENOENT == (done /\ pathkind = "missing") => res = "ENOENT"
ExistingIsFound == (done /\ pathkind = "existing") => res = "ok"
\* a privileged caller can always build an unmasked private instance, so what exists there is found
VisibleToPrivilegedIsFound == (done /\ pathkind = "maskedpath" /\ priv /\ fsopen) => res = "ok"
=============================================================================
