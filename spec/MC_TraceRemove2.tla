---- MODULE MC_TraceRemove2 ----
EXTENDS TraceRemove2
const_NoScn == [nodes |-> <<>>, dir |-> 2, name |-> "", swap |-> <<2, "">>]
====
