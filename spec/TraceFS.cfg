SPECIFICATION Spec
INVARIANT Report
POSTCONDITION Accepted
CHECK_DEADLOCK FALSE
