SPECIFICATION TraceSpec
CONSTANTS
  Trees <- const_NoTrees
  Ops <- const_NoOps
  Backends = {"emulated"}
  MaxIno = 255
  KMaxLinks = 40
  EmuMaxLinks = 128
  KRetry = 16
  MaxAttack = 0
  AtkNames <- const_NoNames
  AtkBodies <- const_NoNames
  AtkKinds <- const_NoNames
  ChkAfterDotDot = TRUE
  ChkFinal = TRUE
  ClampDotDot = TRUE
  RestartAbsAtRoot = TRUE
  NoFollowOnOpen = TRUE
  TrailingSlashIsDirTest = TRUE
  EmptyPathIsENOENT = TRUE
  EmitCases = FALSE
CONSTRAINT Progress
INVARIANT ContainedOnTrace
POSTCONDITION Accepted
CHECK_DEADLOCK FALSE
