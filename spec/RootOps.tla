------------------------------ MODULE RootOps ------------------------------
(***************************************************************************)
(* Single-entry mutating operations of a Root (src/root.rs):               *)
(*   create (file, dir, fifo, symlink, hardlink), create_file,             *)
(*   remove_file, remove_dir, rename                                       *)
(* = split the path into (parent, final name) exactly as path_split /      *)
(*   partial_ancestors do (src/utils/path.rs), resolve the parent in-root  *)
(*   (following), apply ONE *at system call to (parent, name).             *)
(*                                                                         *)
(* C14  ExactEffect: the expected outcome computed here (errno class and   *)
(*      final tree) is replayed against the real library on both backends  *)
(*      and against the raw *at call applied by the harness itself.        *)
(* C03  (static part) OutsideFrame / ResultInside are invariants of this   *)
(*      specification: no argument spelling may make the single *at call   *)
(*      act on, or return, anything outside the root.                      *)
(***************************************************************************)
EXTENDS VFS, Json, SequencesExt, Partial

CONSTANTS Trees, Ops, MaxIno, KMaxLinks, EmitCases,
          RefuseOPathCreate,  \* TRUE: create_file rejects O_PATH (the code since the fix); FALSE: the pinned snapshot
          RefuseDotNames   \* TRUE: a final name "." / ".." is refused before any syscall (not what the code does)

VARIABLES tree, op, path, path2, done, res, fs, fs0

vars == <<tree, op, path, path2, done, res, fs, fs0>>

Ino == 1..MaxIno
NEWINO == MaxIno           \* inode id used for a created object

BaseDents == {<<P, "root", R>>, <<P, "out", O>>, <<O, "secret", SECRET>>}
MkFs(nodes) ==
    [dents |-> BaseDents \cup {<<nodes[i].p, nodes[i].n, nodes[i].id>> : i \in DOMAIN nodes},
     kind  |-> [i \in Ino |->
                  IF i \in {P, R, O} THEN "dir"
                  ELSE IF i = SECRET THEN "file"
                  ELSE IF \E j \in DOMAIN nodes : nodes[j].id = i /\ nodes[j].k # "hard"
                       THEN nodes[CHOOSE j \in DOMAIN nodes : nodes[j].id = i /\ nodes[j].k # "hard"].k
                       ELSE "free"],
     body  |-> [i \in Ino |->
                  IF \E j \in DOMAIN nodes : nodes[j].id = i /\ nodes[j].k = "lnk"
                  THEN nodes[CHOOSE j \in DOMAIN nodes : nodes[j].id = i /\ nodes[j].k = "lnk"].b
                  ELSE <<>>]]

CompsOf(t) == {Trees[t].nodes[i].n : i \in DOMAIN Trees[t].nodes} \cup {"..", ".", "", "nx"}
PathsOf(t) == UNION {[1..n -> CompsOf(t)] : n \in 1..Trees[t].maxlen}
Paths2Of(t) == Trees[t].paths2

NONE == "<none>"

(***************************************************************************)
(* path_split (utils/path.rs:78-101) over Ancestors::next (172-232)        *)
(***************************************************************************)
Split(raw) ==
    IF Len(raw) = 1 THEN [dir |-> <<".">>, name |-> IF raw[1] = "" THEN NONE ELSE raw[1]]
    ELSE [dir  |-> IF Front(raw) = <<"">> THEN <<"", "">> ELSE Front(raw),
          name |-> IF raw[Len(raw)] = "" THEN NONE ELSE raw[Len(raw)]]

FollowFlags == [follow |-> TRUE, dir |-> FALSE, opath |-> TRUE, nosym |-> FALSE]
ResolveParent(f, raw) == KResolve(f, R, Split(raw).dir, FollowFlags, KMaxLinks)

EINVALARG == [ok |-> FALSE, err |-> "InvalidArgument"]
Out(r, f) == [res |-> r, fs |-> f]

(***************************************************************************)
(* openat(dir, name, flags | O_CREAT | O_NOFOLLOW) as used by create_file  *)
(*   fl.excl, fl.opath, fl.odir, fl.acc in {"RDONLY","WRONLY","RDWR"}      *)
(***************************************************************************)
OpenCreat(f, d, name, fl) ==
    IF fl.odir /\ ~fl.opath THEN Out(Err("EINVAL"), f)            \* O_CREAT|O_DIRECTORY: refused before any lookup
    ELSE IF ~IsDir(f, d) THEN Out(Err("ENOTDIR"), f)
    ELSE IF fl.opath THEN
        \* the kernel silently drops O_CREAT under O_PATH: a plain no-follow lookup
        LET r == OpenatNoFollow(f, d, name) IN
        IF r.ok /\ fl.odir /\ ~IsDir(f, r.ino) THEN Out(Err("ENOTDIR"), f) ELSE Out(r, f)
    ELSE IF name \in {".", ".."} THEN Out(Err(IF fl.excl THEN "EEXIST" ELSE "EISDIR"), f)
    ELSE IF HasChild(f, d, name) THEN
        LET c == Child(f, d, name) IN
        IF fl.excl THEN Out(Err("EEXIST"), f)
        ELSE IF IsLnk(f, c) THEN Out(Err("ELOOP"), f)
        ELSE IF IsDir(f, c) THEN Out(Err("EISDIR"), f)
        ELSE IF f.kind[c] = "sock" THEN Out(Err("ENXIO"), f)
        ELSE Out(Ok(c), f)
    ELSE IF ~Linked(f, d) /\ d # P THEN Out(Err("ENOENT"), f)
    ELSE LET r == Mknodat(f, d, name, NEWINO, "file") IN Out(r.res, r.fs)

(***************************************************************************)
(* The operations                                                          *)
(***************************************************************************)
DoCreate(f, o, raw, raw2) ==
    LET pr == ResolveParent(f, raw)  nm == Split(raw).name IN
    IF ~pr.ok THEN Out(pr, f)
    ELSE IF nm = NONE THEN Out(EINVALARG, f)
    ELSE IF RefuseDotNames /\ nm \in {".", ".."} THEN Out(EINVALARG, f)
    ELSE
    CASE o.kind \in {"file", "fifo", "chr", "blk"} -> LET r == Mknodat(f, pr.ino, nm, NEWINO, o.kind) IN Out(r.res, r.fs)
      [] o.kind = "dir"  -> LET r == Mkdirat(f, pr.ino, nm, NEWINO) IN Out(r.res, r.fs)
      [] o.kind = "lnk"  -> LET r == Symlinkat(f, pr.ino, nm, NEWINO, raw2) IN Out(r.res, r.fs)
      [] o.kind = "hard" ->
            LET tp == ResolveParent(f, raw2)  tn == Split(raw2).name IN
            IF ~tp.ok THEN Out(tp, f)
            ELSE IF tn = NONE THEN Out(EINVALARG, f)
            ELSE LET r == Linkat(f, tp.ino, tn, pr.ino, nm) IN Out(r.res, r.fs)

DoCreateFile(f, o, raw) ==
    LET pr == ResolveParent(f, raw)  nm == Split(raw).name IN
    IF ~pr.ok THEN Out(pr, f)
    ELSE IF nm = NONE THEN Out(EINVALARG, f)
    ELSE IF RefuseDotNames /\ nm \in {".", ".."} THEN Out(EINVALARG, f)
    ELSE IF o.opath /\ RefuseOPathCreate THEN Out(EINVALARG, f)     \* root.rs create_file: O_PATH would make O_CREAT a no-op
    ELSE OpenCreat(f, pr.ino, nm, o)

DoRemove(f, o, raw) ==
    LET pr == ResolveParent(f, raw)  nm == Split(raw).name IN
    IF ~pr.ok THEN Out(pr, f)
    ELSE IF nm = NONE THEN Out(EINVALARG, f)
    ELSE IF RefuseDotNames /\ nm \in {".", ".."} THEN Out(EINVALARG, f)
    ELSE LET r == IF o.op = "remove_dir" THEN Rmdirat(f, pr.ino, nm) ELSE Unlinkat(f, pr.ino, nm) IN Out(r.res, r.fs)

DoRename(f, o, raw, raw2) ==
    LET sp == ResolveParent(f, raw)   sn == Split(raw).name
        dp == ResolveParent(f, raw2)  dn == Split(raw2).name IN
    IF ~sp.ok THEN Out(sp, f)
    ELSE IF sn = NONE THEN Out(EINVALARG, f)
    ELSE IF ~dp.ok THEN Out(dp, f)
    ELSE IF dn = NONE THEN Out(EINVALARG, f)
    ELSE IF o.flag \in {"WHITEOUT", "WHITEOUT_NOREPLACE"} THEN
         \* RENAME_WHITEOUT: the plain (or NOREPLACE) rename, and where the source name was a whiteout (character device 0:0)
         \* appears -- unless nothing moved (source and target are one inode: vfs_rename returns before doing anything)
         LET r == Renameat(f, sp.ino, sn, dp.ino, dn, IF o.flag = "WHITEOUT" THEN "" ELSE "NOREPLACE")
             moved == r.res.ok /\ r.fs.dents # f.dents IN
         IF moved THEN Out(r.res, [r.fs EXCEPT !.dents = @ \cup {<<sp.ino, sn, NEWINO>>}, !.kind[NEWINO] = "chr"])
         ELSE Out(r.res, r.fs)
    ELSE LET r == Renameat(f, sp.ino, sn, dp.ino, dn, o.flag) IN Out(r.res, r.fs)


(***************************************************************************)
(* remove_all (root.rs:1167-1179 over utils/dir.rs:72-165), sequentially:  *)
(* the named entry and everything below it disappears; a missing entry is  *)
(* success; "." / ".." are refused.                                        *)
(***************************************************************************)
SubtreeOf(f, d, nm) ==
    LET top == Child(f, d, nm)
        below == IF IsDir(f, top) THEN ReachFrom(f, {top}) ELSE {}
    IN  {<<d, nm, top>>} \cup {x \in f.dents : x[1] \in below}
DoRemoveAll(f, raw) ==
    LET pr == ResolveParent(f, raw)  nm == Split(raw).name IN
    IF ~pr.ok THEN Out(pr, f)
    ELSE IF nm = NONE THEN Out(EINVALARG, f)
    ELSE IF nm \in {".", ".."} THEN Out(EINVALARG, f)
    ELSE IF ~IsDir(f, pr.ino) THEN Out(Err("ENOTDIR"), f)
    ELSE IF ~HasChild(f, pr.ino, nm) THEN Out(Ok(0), f)
    ELSE Out(Ok(0), [f EXCEPT !.dents = @ \ SubtreeOf(f, pr.ino, nm)])

(***************************************************************************)
(* mkdir_all (root.rs:940-1068), sequentially, with the partial lookup of  *)
(* the openat2 backend (openat2.rs:126-163 over Ancestors, path.rs).       *)
(***************************************************************************)
\* Ancestors::next as a sequence of [anc, rem]; rem = <<>> encodes None
RECURSIVE AncFrom(_, _)
AncFrom(raw, i) ==    \* i = index of the component after the slash we split at
    IF i < 2 THEN << [anc |-> <<".">>, rem |-> IF raw = <<"">> THEN <<>> ELSE raw] >>
    ELSE LET a0  == SubSeq(raw, 1, i - 1)
             anc == IF a0 = <<"">> THEN <<"", "">> ELSE a0
             r0  == SubSeq(raw, i, Len(raw))
             rem == IF r0 = <<"">> THEN <<>> ELSE r0
             ends == anc = <<"", "">> \/ anc = <<".">> \/ anc = <<"">>
         IN  << [anc |-> anc, rem |-> rem] >> \o (IF ends THEN <<>> ELSE AncFrom(raw, i - 1))
Ancestors(raw) == AncFrom(raw, Len(raw))

RECURSIVE TryAnc(_, _, _, _)
TryAnc(f, ancs, k, lasterr) ==
    IF k > Len(ancs) THEN [ok |-> FALSE, err |-> lasterr]
    ELSE LET r == KResolve(f, R, ancs[k].anc, FollowFlags, KMaxLinks) IN
         IF r.ok THEN [ok |-> TRUE, ino |-> r.ino, rem |-> ancs[k].rem, lasterr |-> lasterr]
         ELSE TryAnc(f, ancs, k + 1, r.err)
PartialK(f, raw) ==
    LET full == KResolve(f, R, raw, FollowFlags, KMaxLinks) IN
    IF full.ok THEN [ok |-> TRUE, ino |-> full.ino, rem |-> <<>>, lasterr |-> ""]
    ELSE TryAnc(f, Ancestors(raw), 1, full.err)

RECURSIVE MkChain(_, _, _, _)
MkChain(f, cur, parts, k) ==
    IF parts = <<>> THEN Out(Ok(cur), f)
    ELSE LET nm == Head(parts)
             m  == Mkdirat(f, cur, nm, NEWINO - k) IN
         IF ~m.res.ok /\ m.res.err # "EEXIST" THEN Out(m.res, f)
         ELSE LET f2 == m.fs
                  o  == OpenatNoFollow(f2, cur, nm) IN
              IF ~o.ok THEN Out(o, f2)
              ELSE IF IsLnk(f2, o.ino) THEN Out(Err("ENOTDIR"), f2)    \* O_DIRECTORY|O_NOFOLLOW on a link
              ELSE IF ~IsDir(f2, o.ino) THEN Out(Err("ENOTDIR"), f2)
              ELSE MkChain(f2, o.ino, Tail(parts), k + 1)
DoMkdirAll(f, raw) ==
    LET p == PartialK(f, raw) IN
    IF ~p.ok THEN Out(Err(p.err), f)
    ELSE IF p.lasterr \notin {"", "ENOENT"} THEN Out(Err(p.lasterr), f)
    ELSE IF ~IsDir(f, p.ino) THEN Out(Err("ENOTDIR"), f)
    ELSE LET parts == SelectSeq(p.rem, LAMBDA c : c \notin {"", "."}) IN
         IF \E i \in DOMAIN parts : parts[i] = ".." THEN Out(Err("ENOENT"), f)
         ELSE MkChain(f, p.ino, parts, 0)

\* what mkdir_all makes of a partial lookup (root.rs:985-1068), for either backend
MkdirAllWith(f, p) ==
    IF ~p.ok THEN Out(Err(p.err), f)
    ELSE IF p.lasterr \notin {"", "ENOENT"} THEN Out(Err(p.lasterr), f)
    ELSE IF ~IsDir(f, p.ino) THEN Out(Err("ENOTDIR"), f)
    ELSE LET parts == SelectSeq(p.rem, LAMBDA c : c \notin {"", "."}) IN
         IF \E i \in DOMAIN parts : parts[i] = ".." THEN Out(Err("ENOENT"), f)
         ELSE MkChain(f, p.ino, parts, 0)
DoMkdirAllE(f, raw) == MkdirAllWith(f, PartialE(f, raw))

Do(f, o, raw, raw2) ==
    CASE o.op = "create"      -> DoCreate(f, o, raw, raw2)
      [] o.op = "create_file" -> DoCreateFile(f, o, raw)
      [] o.op \in {"remove_file", "remove_dir"} -> DoRemove(f, o, raw)
      [] o.op = "rename"      -> DoRename(f, o, raw, raw2)
      [] o.op = "remove_all"  -> DoRemoveAll(f, raw)
      [] o.op = "mkdir_all"   -> DoMkdirAll(f, raw)

NeedsPath2(o) == o.op = "rename" \/ (o.op = "create" /\ o.kind \in {"lnk", "hard"})

Init ==
    /\ tree \in DOMAIN Trees
    /\ op \in Ops
    /\ path \in PathsOf(tree)
    /\ path2 \in (IF NeedsPath2(op) THEN Paths2Of(tree) ELSE {<<"">>})
    /\ fs0 = MkFs(Trees[tree].nodes) /\ fs = fs0
    /\ done = FALSE /\ res = Err("none")

Eval ==
    /\ ~done
    /\ LET r == Do(fs, op, path, path2) IN res' = r.res /\ fs' = r.fs
    /\ done' = TRUE
    /\ UNCHANGED <<tree, op, path, path2, fs0>>

Spec == Init /\ [][Eval]_vars

(***************************************************************************)
(* C03 (every path spelling, static tree)                                  *)
(***************************************************************************)
OutsideDents(f) == {d \in f.dents : d[1] \notin ReachFrom(f, {R})}
OutsideFrame == done => OutsideDents(fs) = OutsideDents(fs0)
\* a descriptor handed back by create_file is an object inside the root
ResultInside == (done /\ op.op \in {"create_file", "mkdir_all"} /\ res.ok) => res.ino \in ReachFrom(fs, {R})
\* C12 (sequential): success returns the in-root resolution of the path, which is a directory
MkdirAllPost == (done /\ op.op = "mkdir_all" /\ res.ok) =>
                   LET k == KResolve(fs, R, path, FollowFlags, KMaxLinks) IN k.ok /\ k.ino = res.ino /\ IsDir(fs, k.ino)
\* C04 for mkdir_all at the level of the design: the emulated partial lookup (SymlinkStack) and the openat2-style
\* one (full path, then each ancestor) make mkdir_all do the same thing -- same outcome class, same final tree, same
\* returned directory -- and the symlink stack never breaks
PartialBackendsAgree ==
    (done /\ op.op = "mkdir_all") =>
        LET e == DoMkdirAllE(fs0, path)  k == DoMkdirAll(fs0, path) IN
        /\ e.res.ok = k.res.ok
        /\ (e.res.ok => e.res.ino = k.res.ino)
        /\ (~e.res.ok => e.res.err = k.res.err)
        /\ e.fs.dents = k.fs.dents
SymlinkStackNeverBreaks ==
    (done /\ op.op = "mkdir_all") => LET p == PartialE(fs0, path) IN p.ok \/ p.err # "INTERNAL"
\* C13 (sequential): only the named subtree disappears, nothing is added
RemoveAllPost == (done /\ op.op = "remove_all") => (fs.dents \subseteq fs0.dents)
\* the symlink target string is stored verbatim (never resolved), so nothing is implied for it
TypeOK == done \in BOOLEAN

ASSUME EmitCases => PrintT(<<"TREES", ToJson(Trees)>>)
CaseOut ==
    (EmitCases /\ done) =>
        PrintT(<<"CASE", ToJson([tree |-> Trees[tree].name, op |-> op, path |-> path, path2 |-> path2,
                                  split |-> Split(path), split2 |-> Split(path2),
                                  expect |-> res, dents |-> fs.dents,
                                  frame |-> (OutsideDents(fs) = OutsideDents(fs0)),
                                  post |-> (IF op.op = "mkdir_all" /\ res.ok
                                            THEN LET k == KResolve(fs, R, path, FollowFlags, KMaxLinks) IN k.ok /\ k.ino = res.ino
                                            ELSE TRUE),
                                  inside |-> (~(op.op \in {"create_file", "mkdir_all"} /\ res.ok) \/ res.ino \in ReachFrom(fs, {R})),
                                  kinds |-> [i \in {d[3] : d \in fs.dents} |-> fs.kind[i]]])>>)
=============================================================================
