SPECIFICATION Spec
CONSTANTS
  MaxDepth = 6
  RetryOnce = FALSE
INVARIANTS HandlesBounded MissingIsENOENT ExistingIsFound
CHECK_DEADLOCK FALSE
