SPECIFICATION Spec
CONSTANTS
  MaxDepth = 6
  RetryOnce = FALSE
  RememberENOENT = FALSE
  UnmaskedViaOpenTree = FALSE
INVARIANTS HandlesBounded MissingIsENOENT ExistingIsFound
CHECK_DEADLOCK FALSE
