------------------------------ MODULE CBoundary ------------------------------
(***************************************************************************)
(* The C boundary contract (src/capi/*.rs), as a finite specification that *)
(* TLC enumerates completely; every enumerated case is executed against    *)
(* the real C ABI.                                                         *)
(*  - argument validation: a negative descriptor, a NULL path, an unknown  *)
(*    procfs base or an invalid mode yields an error id (whose errorinfo   *)
(*    says EINVAL) and has no effect: no descriptor is closed or modified, *)
(*    nothing is created anywhere (in particular not in the current        *)
(*    directory, which is what a negative "descriptor" AT_FDCWD would      *)
(*    mean to the kernel)                                                  *)
(*  - bounded copy of readlink results: returns the full length L of the   *)
(*    body, copies min(L, B) bytes, never writes at or beyond B; NULL      *)
(*    buffers and B = 0 are allowed                                        *)
(***************************************************************************)
EXTENDS Integers, Sequences, FiniteSets, TLC, Json

CONSTANTS MaxLen, Slack

\* exported functions: which argument kinds they take
F(n, fd, np, base, mode) == [name |-> n, fd |-> fd, npaths |-> np, base |-> base, mode |-> mode]
Funcs == {
    F("open_root", FALSE, 1, FALSE, FALSE), F("reopen", TRUE, 0, FALSE, FALSE),
    F("inroot_resolve", TRUE, 1, FALSE, FALSE), F("inroot_resolve_nofollow", TRUE, 1, FALSE, FALSE),
    F("inroot_open", TRUE, 1, FALSE, FALSE), F("inroot_readlink", TRUE, 1, FALSE, FALSE),
    F("inroot_rename", TRUE, 2, FALSE, FALSE), F("inroot_rmdir", TRUE, 1, FALSE, FALSE),
    F("inroot_unlink", TRUE, 1, FALSE, FALSE), F("inroot_remove_all", TRUE, 1, FALSE, FALSE),
    F("inroot_creat", TRUE, 1, FALSE, TRUE), F("inroot_mkdir", TRUE, 1, FALSE, TRUE),
    F("inroot_mkdir_all", TRUE, 1, FALSE, TRUE), F("inroot_mknod", TRUE, 1, FALSE, TRUE),
    F("inroot_symlink", TRUE, 2, FALSE, FALSE), F("inroot_hardlink", TRUE, 2, FALSE, FALSE),
    F("proc_open", FALSE, 1, TRUE, FALSE), F("proc_readlink", FALSE, 1, TRUE, FALSE) }

BadFds   == {-1, -2, -9, -100, -4095, -4096, -65536, -2147483647}
BadBases == {0, 1, 2, 305419896, 1342308350, 152919584, 2147483647}   \* near-misses of the three PATHRS_PROC_* values
\* the base is a 64-bit argument (TLC integers have 32 bits: a value is the pair <<upper half, lower half>>, halves as signed
\* 32-bit numbers): a base is valid only if ALL 64 bits are right -- a valid lower half under a non-zero upper half is unknown
ValidBases == {1342308351, 152919583, 1051549215}
BadHis == {1, 2, 2147483647, -1, -2147483647 - 1}
BadBasePairs == ({0} \X BadBases) \cup (BadHis \X (ValidBases \cup {0, 305419896}))
BadModes == {"mknod-ifmt-all", "mknod-iflnk", "mknod-bad-type", "mkdir_all-setuid", "mkdir_all-type-bits", "mkdir_all-high-bits"}

ArgCases ==
    { [f |-> f.name, cls |-> "badfd", val |-> v, which |-> 0, mode |-> "", hi |-> 0] : f \in {g \in Funcs : g.fd}, v \in BadFds }
    \cup { [f |-> f.name, cls |-> "nullpath", val |-> 0, which |-> w, mode |-> "", hi |-> 0] : <<f, w>> \in { <<g, k>> \in Funcs \X {1, 2} : k <= g.npaths } }
    \cup { [f |-> f.name, cls |-> "badbase", val |-> v, which |-> 0, mode |-> "", hi |-> h] : f \in {g \in Funcs : g.base}, <<h, v>> \in BadBasePairs }
    \cup { [f |-> (IF m \in {"mknod-ifmt-all", "mknod-iflnk", "mknod-bad-type"} THEN "inroot_mknod" ELSE "inroot_mkdir_all"), cls |-> "badmode", val |-> 0, which |-> 0, mode |-> m, hi |-> 0] : m \in BadModes }

\* the expected outcome of every argument-validation case
ArgExpect(c) == [errid |-> TRUE, errno |-> "EINVAL", effects |-> FALSE]

\* copy contract
Min(a, b) == IF a < b THEN a ELSE b
CopyCases == { [L |-> len, B |-> b] : len \in 1..MaxLen, b \in -1..(MaxLen + Slack) }    \* B = -1 encodes a NULL buffer
CopyExpect(c) == [ret |-> c.L, copied |-> IF c.B < 0 THEN 0 ELSE Min(c.L, c.B)]

VARIABLES phase
Init == phase = "emit"
Next == phase = "emit" /\ phase' = "done"
Spec == Init /\ [][Next]_phase

\* sanity of the specification itself
CopyNeverBeyond == \A c \in CopyCases : CopyExpect(c).copied <= (IF c.B < 0 THEN 0 ELSE c.B) /\ CopyExpect(c).copied <= c.L
EveryFuncCovered == \A f \in Funcs : \E c \in ArgCases : c.f = f.name
Inv == CopyNeverBeyond /\ EveryFuncCovered

ASSUME PrintT(<<"CASES", ToJson([args |-> {[c |-> c, e |-> ArgExpect(c)] : c \in ArgCases},
                                  copy |-> {[c |-> c, e |-> CopyExpect(c)] : c \in CopyCases}])>>)
=============================================================================
