----------------------------- MODULE MC_Lookup -----------------------------
EXTENDS Lookup, SequencesExt

N(id, p, n, k, b) == [id |-> id, p |-> p, n |-> n, k |-> k, b |-> b]
D(id, p, n) == N(id, p, n, "dir", <<>>)
F(id, p, n) == N(id, p, n, "file", <<>>)
L(id, p, n, b) == N(id, p, n, "lnk", b)
T(name, nodes, maxlen) == [name |-> name, nodes |-> nodes, maxlen |-> maxlen, extra |-> {}]

\* ---- hand-made catalogue (an abstraction of the test-suite's basic tree and Appendix A.2) ----
TBasic == T("basic", <<
    D(5, R, "a"), D(6, 5, "sub"), F(7, R, "f"),
    L(8, R, "la", <<"a">>), L(9, R, "lf", <<"f">>), L(10, R, "dang", <<"nonexist">>),
    L(11, R, "labs", <<"", "a", "">>), L(12, 5, "esc", <<"..", "..", "out">>),
    L(13, R, "loop", <<"loop">>), L(14, R, "ldot", <<".">>), L(15, R, "ldd", <<"a", "sub", "..">>)
  >>, 2)

TEscape == T("escape", <<
    D(5, R, "a"), L(6, 5, "up", <<"..", "..", "out", "secret">>), L(7, R, "abs", <<"", "..", "..", "out">>),
    L(8, 5, "self", <<"..", "a">>), F(9, 5, "f")
  >>, 3)

TChain == T("chain", <<
    D(5, R, "d"), L(6, R, "l1", <<"d">>), L(7, R, "l2", <<"l1">>), L(8, R, "l3", <<"l2">>),
    L(9, R, "l4", <<"l3">>), L(10, R, "l5", <<"l4">>), L(11, R, "l6", <<"l5">>), L(12, R, "l7", <<"l6">>)
  >>, 2)

TLoop2 == T("loop2", <<
    L(5, R, "x", <<"y">>), L(6, R, "y", <<"x">>), D(7, R, "d"), L(8, 7, "up", <<"..", "x", "z">>)
  >>, 3)

TSlash == T("slash", <<
    D(5, R, "a"), F(6, R, "f"), L(7, R, "las", <<"a", "">>), L(8, R, "lfs", <<"f", "">>),
    L(9, R, "lroot", <<"", "">>), L(10, R, "ldd", <<"a", "", "..", "">>), L(11, 5, "back", <<"..", "f">>),
    L(12, 5, "abs2", <<"", "f">>)        \* an absolute link that does NOT sit in the root: restarting at the root matters
  >>, 3)

TFifo == T("fifo", <<
    D(5, R, "a"), N(6, 5, "p", "fifo", <<>>), L(7, R, "lp", <<"a", "p">>), F(8, 5, "f")
  >>, 3)

\* names that merely look like "." and "..": ordinary names for the kernel, a trap for any predicate on "all dots"
TDots == T("dots", <<
    D(5, R, "..."), F(6, 5, "x"), F(7, R, "x"), D(8, 5, "...."), F(9, 8, "y"), L(10, R, "l3", <<"...", "....">>), L(11, 5, "up3", <<"..", "...", "x">>)
  >>, 3)

\* an unprivileged caller: priv/ is a directory it may read but not search (rwxr--r-- of somebody else)
DX(id, p, n) == [id |-> id, p |-> p, n |-> n, k |-> "dir", b |-> <<>>, nx |-> TRUE]
TPerm == T("perm", <<
    D(5, R, "pub"), F(6, 5, "f"), DX(7, R, "priv"), F(8, 7, "f"), D(9, 7, "sub"), L(10, R, "lp", <<"priv", "f">>),
    L(11, R, "lt", <<"priv", "sub", "..", "..", "pub", "f">>), L(12, 5, "up", <<"..", "priv">>), L(13, 7, "out", <<"..", "pub">>)
  >>, 3)

Catalogue == <<TBasic, TEscape, TChain, TLoop2, TSlash, TFifo, TDots, TPerm>>

\* ---- generated family: every tree with two nodes below the root ----
GenBodies == {<<"a">>, <<"b">>, <<"..">>, <<"..", "b">>, <<"", "a">>, <<"">> \o <<"..", "..", "out">>, <<"a", "">>, <<".">>, <<"b", "..", "a">>}
GenKinds  == {"dir", "file"}
Gen1 == { N(5, R, "a", k, <<>>) : k \in GenKinds } \cup { L(5, R, "a", b) : b \in GenBodies }
Gen2(n1) == LET ps == IF n1.k = "dir" THEN {R, 5} ELSE {R} IN
            UNION { { N(6, p, nm, k, <<>>) : k \in GenKinds } \cup { L(6, p, nm, b) : b \in GenBodies }
                    : <<p, nm>> \in { <<p, nm>> \in ps \X {"a", "b"} : ~(p = R /\ nm = "a") } }
GenTrees == { <<n1, n2>> : <<n1, n2>> \in { <<x, y>> \in Gen1 \X (UNION {Gen2(z) : z \in Gen1}) : y \in Gen2(x) } }
GenSeq == LET s == SetToSeq(GenTrees) IN
          [i \in DOMAIN s |-> [name |-> "gen" \o ToString(i), nodes |-> s[i], maxlen |-> 3, extra |-> {}]]

const_TreesQuick == Catalogue
const_TreesTiny == <<TFifo>>

\* ---- race trees (C02): small, so that every attacker placement is explored ----
TP(name, nodes, paths) == [name |-> name, nodes |-> nodes, maxlen |-> 0, extra |-> paths]
TRace1 == TP("race1", << D(5, R, "a"), D(6, 5, "b"), F(7, 6, "f") >>,
             { <<"a", "b", "..">>, <<"a", "b", "..", "b", "f">>, <<"a", "..", "a">>, <<"a", "b", "f">>, <<"a", "b", "..", "..">> })
TRace2 == TP("race2", << D(5, R, "a"), L(6, R, "l", <<"a">>), D(7, 5, "b") >>,
             { <<"l", "b">>, <<"l", "..">>, <<"l", "b", "..", "..">>, <<"l">> })
TRace3 == TP("race3", << D(5, R, "a"), D(6, 5, "b"), L(7, 6, "up", <<"..", "..">>) >>,
             { <<"a", "b", "up">>, <<"a", "b", "up", "a">> })
const_TreesRace == <<TRace1, TRace2, TRace3>>

\* ---- link budgets at their REAL values (40 kernel, 128 emulated): one chain l1 -> d, l(i) -> l(i-1) ----
LName(i) == "l" \o ToString(i)
ChainNodes(n) == << D(5, R, "d") >> \o [i \in 1..n |-> L(5 + i, R, LName(i), << IF i = 1 THEN "d" ELSE LName(i - 1) >>)]
TBudget == TP("budget", ChainNodes(130), { <<LName(i)>> : i \in {1, 39, 40, 41, 126, 127, 128, 129} } \cup { <<LName(40), "..", LName(1)>> })
const_TreesBudget == <<TBudget>>
const_TreesGen   == Catalogue \o GenSeq

Acc(a, d) == [acc |-> a, odir |-> d]
ResolveOps == { [op |-> "resolve", nofollow |-> nf, nosym |-> ns, acc |-> "PATH", odir |-> FALSE] : nf \in BOOLEAN, ns \in BOOLEAN }
OpenOps    == { [op |-> "open", nofollow |-> nf, nosym |-> FALSE, acc |-> a, odir |-> d] :
                  nf \in BOOLEAN, a \in {"RDONLY", "PATH"}, d \in BOOLEAN }
ReadlinkOps == { [op |-> "readlink", nofollow |-> TRUE, nosym |-> ns, acc |-> "PATH", odir |-> FALSE] : ns \in BOOLEAN }
const_OpsAll == ResolveOps \cup OpenOps \cup ReadlinkOps
const_OpsResolve == ResolveOps

const_AtkNames == {"a", "b", "z"}
const_AtkBodies == {<<"..">>, <<"", "..", "..", "out">>, <<"..", "..", "out", "secret">>}
=============================================================================
