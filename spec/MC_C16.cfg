SPECIFICATION Spec
CONSTANTS
  Threads = {"t1", "t2", "t3"}
  IdSpace <- const_Ids
  MaxOps = 4
  RetryOnOccupied = TRUE
INVARIANTS TypeOK IdBelowErrnoRange LiveIdsDistinct ConsumeReturnsThatFailure
CHECK_DEADLOCK FALSE
