SPECIFICATION Spec
CONSTRAINT Progress
INVARIANT Report
POSTCONDITION Accepted
CHECK_DEADLOCK FALSE
