SPECIFICATION Spec
CONSTANTS
  Uids = {0, 1001, 1002}
  EmitCases = FALSE
  EmuChecksEveryLink = FALSE
INVARIANTS SameRefusals SysctlOffNeverRefuses
CHECK_DEADLOCK FALSE
