SPECIFICATION Spec
CONSTANTS
  Trees <- const_TreesRace
  Ops <- const_OpsAll
  Backends = {"emulated", "kernel"}
  MaxIno = 10
  KMaxLinks = 4
  EmuMaxLinks = 7
  KRetry = 2
  MaxAttack = 1
  AtkNames <- const_AtkNames
  AtkBodies <- const_AtkBodies
  AtkKinds = {"rename", "exchange", "unlink", "symlink", "mkdir"}
  ChkAfterDotDot = TRUE
  ChkFinal = TRUE
  ClampDotDot = TRUE
  RestartAbsAtRoot = TRUE
  NoFollowOnOpen = TRUE
  TrailingSlashIsDirTest = TRUE
  EmptyPathIsENOENT = TRUE
  EmitCases = FALSE
INVARIANTS TypeOK Contained
CHECK_DEADLOCK FALSE
