--------------------------------- MODULE Psl ---------------------------------
(***************************************************************************)
(* fs.protected_symlinks as enforced by the kernel (fs/namei.c              *)
(* may_follow_link, called from pick_link only for WALK_TRAILING links)    *)
(* versus the emulated resolver (src/resolvers/opath/imp.rs                *)
(* may_follow_link, 148-173 and its call site).                            *)
(*                                                                         *)
(* C15 SameRefusals: for every combination of directory mode bits,         *)
(* directory owner, link owner, caller, link position and sysctl value the *)
(* emulated walk refuses (EACCES) iff the kernel walk does.                *)
(***************************************************************************)
EXTENDS VFS, Json

CONSTANTS Uids, EmitCases,
          EmuChecksEveryLink    \* TRUE = the pinned snapshot (check applied to every followed link)

VARIABLES sticky, ww, dirUid, linkUid, caller, pos, sysctl, done
vars == <<sticky, ww, dirUid, linkUid, caller, pos, sysctl, done>>

\* "abs-into-root": the trailing link's body is absolute and names a link that sits directly in the ROOT directory
\* (whose mode and owner are then the ones that count): the walk re-enters the root after the absolute jump
Positions == {"trailing", "intermediate", "nested-trailing", "abs-into-root"}

\* kernel: only links followed as the trailing component of a walk (the top-level path or the body
\* of a trailing link) are subject to the restriction
KernelRefuses == pos \in {"trailing", "nested-trailing", "abs-into-root"} /\ ~MayFollow(sysctl, caller, linkUid, dirUid, sticky, ww)
EmuRefuses    == (EmuChecksEveryLink \/ pos \in {"trailing", "nested-trailing", "abs-into-root"}) /\ ~MayFollow(sysctl, caller, linkUid, dirUid, sticky, ww)

Init ==
    /\ sticky \in BOOLEAN /\ ww \in BOOLEAN /\ dirUid \in Uids /\ linkUid \in Uids /\ caller \in Uids
    /\ pos \in Positions /\ sysctl \in {0, 1} /\ done = FALSE
Next == ~done /\ done' = TRUE /\ UNCHANGED <<sticky, ww, dirUid, linkUid, caller, pos, sysctl>>
Spec == Init /\ [][Next]_vars

SameRefusals == EmuRefuses = KernelRefuses
SysctlOffNeverRefuses == sysctl = 0 => ~EmuRefuses
CaseOut == (EmitCases /\ done) =>
    PrintT(<<"CASE", ToJson([sticky |-> sticky, ww |-> ww, dirUid |-> dirUid, linkUid |-> linkUid, caller |-> caller, pos |-> pos, sysctl |-> sysctl,
                              refuse |-> KernelRefuses])>>)
=============================================================================
