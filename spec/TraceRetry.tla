------------------------------ MODULE TraceRetry ------------------------------
(***************************************************************************)
(* C08 on real executions: one record per procfs lookup executed under the *)
(* ptrace supervisor on a given kind of /proc (mount options) as a given   *)
(* kind of caller.  Resource use is counted from the raw syscall trace.    *)
(*   HandlesBounded   procfs root descriptors created by one call          *)
(*   FdsBounded       peak number of descriptors open at once in the call  *)
(*   Terminates       the call returned, within a syscall budget           *)
(*   MissingIsENOENT  a path that does not exist is reported as ENOENT     *)
(*   ExistingIsFound  a path that exists for this caller on a full /proc   *)
(*                    is not reported missing                              *)
(* The recursion that these bounds exclude is the design-level subject of  *)
(* ProcRetry.tla.                                                          *)
(***************************************************************************)
EXTENDS Naturals, Sequences, TLC, Json, IOUtils
Rec == ndJsonDeserialize(IOEnv.TRACE)
MaxHandles == 6
MaxFds == 24
MaxSys == 4000
VARIABLES l, bad
vars == <<l, bad>>
Init == l = 1 /\ bad = <<>>
V(what, e) == [prop |-> "C08", what |-> what, case |-> e.case, line |-> l, handles |-> e.handles, peak |-> e.peak, nsys |-> e.nsys, outcome |-> e.outcome]
AddIf(s, c, x) == IF c THEN Append(s, x) ELSE s
Step ==
    /\ l <= Len(Rec) /\ l' = l + 1
    /\ LET e == Rec[l]
           b1 == AddIf(bad, e.handles > MaxHandles, V("a single lookup created an unbounded number of procfs handles", e))
           b2 == AddIf(b1, e.peak > MaxFds, V("a single lookup held an unbounded number of descriptors", e))
           b3 == AddIf(b2, e.outcome \in {"hang", "panic"} \/ e.nsys > MaxSys, V("lookup did not terminate within its budget", e))
           b4 == AddIf(b3, e.pathkind = "missing" /\ e.outcome # "ENOENT", V("a path that does not exist was not reported as ENOENT", e))
           b5 == AddIf(b4, e.pathkind = "existing" /\ e.outcome = "ENOENT", V("an existing path was reported as ENOENT", e))
       IN bad' = b5
Spec == Init /\ [][Step]_vars
Accepted ==
    LET n == TLCGet("stats").diameter IN
    /\ PrintT(<<"CONSUMED", ToJson([lines |-> Len(Rec), diameter |-> n])>>)
    /\ n - 1 = Len(Rec)
Report == (l = Len(Rec) + 1) => PrintT(<<"REPORT", ToJson([bad |-> bad, kmm |-> <<>>])>>)
=============================================================================
