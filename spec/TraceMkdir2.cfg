SPECIFICATION TraceSpec
CONSTANTS
  Procs = {"p1", "p2"}
  Scenario <- const_NoScn
  MaxIno = 60
  KMaxLinks = 40
  TolerateEEXIST = TRUE
  RefuseDotDotTail = TRUE
  AtkMkdirNames <- const_NoNames
  MaxAttack = 0
  KeepDotInStack = FALSE
CONSTRAINT Progress
INVARIANTS HandleIsResolution OnlyNewDirs MutationsInside
POSTCONDITION Accepted
CHECK_DEADLOCK FALSE
