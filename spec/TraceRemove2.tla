----------------------------- MODULE TraceRemove2 -----------------------------
(***************************************************************************)
(* Action-level conformance of the real remove_all (src/utils/dir.rs) with *)
(* Remove2.tla.  The relevant system calls of one or two real library      *)
(* processes, possibly with attacker mutations placed between them by the  *)
(* ptrace supervisor, must be a behaviour of the specification:            *)
(*   unlinkat(dir, name, 0)          = Step with pc "unlink"                *)
(*   unlinkat(dir, name, REMOVEDIR)  = Step with pc "rmdir"                 *)
(*   openat(dir, name, O_DIRECTORY|O_NOFOLLOW) = Step with pc "opendir"     *)
(*   getdents64 returning names or failing     = Step with pc "scan", the  *)
(*                                    listing order bound to the recorded   *)
(*                                    one (AnyOrder = TRUE)                 *)
(*   openat(sub, ".") and getdents64 = 0       = stuttering                 *)
(* with the same directory inode, name and result; recursion ("iter") is    *)
(* silent.  The attacker's recorded mutations are applied to the model's    *)
(* tree with the kernel model (VFS.tla).  OutsideUntouched is evaluated on  *)
(* every driven state and the real final tree must equal the model's.       *)
(* A rejected trace is model drift (evidence), not an alarm.                *)
(***************************************************************************)
EXTENDS Remove2, Json, IOUtils, TLC

Rec == ndJsonDeserialize(IOEnv.TRACE)
ToSetL(s) == {s[i] : i \in DOMAIN s}

VARIABLES l,
          everIn,   \* ghost: inodes that were inside the root at some moment of the case
          bad       \* ghost: the library removed an entry of a directory that never was inside the root (C03 / C13)
tvars == <<vars, l, everIn, bad>>

PName(i) == IF i = 0 THEN "p1" ELSE "p2"
FsOf(e) ==
    [dents |-> {<<d[1], d[2], d[3]>> : d \in ToSetL(e.dents)},
     kind  |-> [i \in Ino |-> IF \E x \in ToSetL(e.inodes) : x[1] = i THEN (CHOOSE x \in ToSetL(e.inodes) : x[1] = i)[2] ELSE "free"],
     body  |-> [i \in Ino |-> IF \E x \in ToSetL(e.inodes) : x[1] = i THEN (CHOOSE x \in ToSetL(e.inodes) : x[1] = i)[3] ELSE <<>>]]

E == Rec[l]
Consume == l' = l + 1
Empty == [dents |-> {}, kind |-> [i \in Ino |-> "free"], body |-> [i \in Ino |-> <<>>]]

TraceInit ==
    /\ l = 1 /\ fs = Empty /\ fs0 = Empty
    /\ stack = [p \in Procs |-> <<>>] /\ res = [p \in Procs |-> "ok"] /\ who = "" /\ natk = 0
    /\ everIn = {} /\ bad = FALSE /\ denied = {} /\ pinned = {}

\* a new recorded case: the tree and, per caller, the (parent directory inode, final name) its path resolved to
T_Init ==
    /\ l <= Len(Rec) /\ E.ev = "init" /\ Consume
    /\ fs' = FsOf(E) /\ fs0' = FsOf(E)
    /\ stack' = [p \in Procs |-> LET i == IF p = "p1" THEN 1 ELSE 2 IN
                                 IF i <= Len(E.frames) THEN << Frame(E.frames[i][1], E.frames[i][2]) >> ELSE <<>>]
    /\ res' = [p \in Procs |-> LET i == IF p = "p1" THEN 1 ELSE 2 IN IF i <= Len(E.frames) THEN "running" ELSE "ok"]
    /\ who' = "" /\ natk' = 0 /\ everIn' = ReachFrom(FsOf(E), {R}) /\ bad' = FALSE
    /\ denied' = ToSetL(E.denied) /\ pinned' = ToSetL(E.pinned)

ApplyAtt(f, e) ==
    CASE e.nr = "mkdirat"   -> Mkdirat(f, e.d1, e.n1, e.rid).fs
      [] e.nr = "mknodat"   -> Mknodat(f, e.d1, e.n1, e.rid, e.kind).fs
      [] e.nr = "symlinkat" -> Symlinkat(f, e.d1, e.n1, e.rid, e.body).fs
      [] e.nr = "unlinkat"  -> (IF e.flag = "REMOVEDIR" THEN Rmdirat(f, e.d1, e.n1) ELSE Unlinkat(f, e.d1, e.n1)).fs
      [] e.nr = "renameat2" -> Renameat(f, e.d1, e.n1, e.d2, e.n2, e.flag).fs
      [] OTHER -> f
T_Att ==
    /\ l <= Len(Rec) /\ E.ev = "att" /\ Consume
    /\ fs' = IF E.ret = 0 THEN ApplyAtt(fs, E) ELSE fs
    /\ natk' = natk + 1 /\ who' = "attacker"
    /\ UNCHANGED <<fs0, stack, res, bad, denied, pinned>> /\ everIn' = everIn \cup ReachFrom(fs', {R})

\* recursion into the next listed child / end of the batch: no system call
Silent ==
    /\ \E p \in Procs : stack[p] # <<>> /\ Top(p).pc = "iter" /\ Step(p)
    /\ UNCHANGED <<l, everIn, bad>>

Running(p) == stack[p] # <<>>
T_Unlink ==
    /\ l <= Len(Rec) /\ E.ev = "sys" /\ E.nr = "unlinkat" /\ Consume
    /\ LET p == PName(E.who) IN
       /\ Running(p) /\ Top(p).pc = (IF E.flag = "REMOVEDIR" THEN "rmdir" ELSE "unlink")
       /\ E.d1 = Top(p).d /\ E.n1 = Top(p).n
       /\ LET r == IF E.flag = "REMOVEDIR" THEN RmdirP(fs, E.d1, E.n1) ELSE UnlinkP(fs, E.d1, E.n1) IN
            IF E.ret = 0 THEN r.res.ok ELSE ~r.res.ok /\ r.res.err = E.kind
       /\ Step(p)
    /\ bad' = (bad \/ (E.ret = 0 /\ E.d1 \notin everIn)) /\ UNCHANGED everIn
T_Opendir ==
    /\ l <= Len(Rec) /\ E.ev = "sys" /\ E.nr = "openat" /\ E.n1 # "." /\ Consume
    /\ LET p == PName(E.who) IN
       /\ Running(p) /\ Top(p).pc = "opendir" /\ E.d1 = Top(p).d /\ E.n1 = Top(p).n
       /\ LET o == OpenatNoFollow(fs, E.d1, E.n1) IN
            IF E.ret >= 0 THEN o.ok /\ o.ino = E.rid /\ IsDir(fs, o.ino)
            ELSE \/ ~o.ok /\ o.err = E.kind
                 \/ o.ok /\ ~IsDir(fs, o.ino) /\ E.kind = "ENOTDIR"      \* symlinks included (O_DIRECTORY|O_NOFOLLOW)
       /\ Step(p)
    /\ UNCHANGED <<everIn, bad>>
\* one getdents batch (names without "." and ".."), or getdents failing with ENOENT on a directory that is gone
T_Scan ==
    /\ l <= Len(Rec) /\ E.ev = "sys" /\ E.nr = "getdents" /\ E.flag = "names" /\ Consume
    /\ LET p == PName(E.who) IN
       /\ Running(p) /\ Top(p).pc = "scan" /\ E.d1 = Top(p).sub
       /\ Step(p)
       /\ stack'[p] # <<>>
       /\ LET t == stack'[p][Len(stack'[p])] IN
            IF E.ret < 0 \/ E.body = <<>> THEN t.pc = "unlink" /\ t.final
            ELSE t.pc = "iter" /\ t.todo = E.body
    /\ UNCHANGED <<everIn, bad>>
\* the fresh iteration handle (openat(sub, ".")), the end-of-directory getdents, the in-root resolution of the parent
T_Stutter ==
    /\ l <= Len(Rec) /\ E.ev = "sys" /\ Consume
    /\ \/ E.nr = "openat" /\ E.n1 = "." /\ Running(PName(E.who)) /\ Top(PName(E.who)).pc = "scan" /\ E.d1 = Top(PName(E.who)).sub
       \/ E.nr = "getdents" /\ E.flag = "end"
       \/ E.nr = "openat2"
    /\ UNCHANGED <<vars, everIn, bad>>
T_End ==
    /\ l <= Len(Rec) /\ E.ev = "end" /\ Consume
    /\ LET p == PName(E.who) IN
       /\ stack[p] = <<>>
       /\ IF E.ret = 0 THEN res[p] = "ok" ELSE res[p] = E.kind
    /\ UNCHANGED <<vars, everIn, bad>>
T_Skip ==
    /\ l <= Len(Rec) /\ E.ev = "snap" /\ Consume
    /\ AllDone
    /\ fs.dents = FsOf(E).dents           \* the real final tree is the model's final tree
    /\ UNCHANGED <<vars, everIn, bad>>

TraceNext == T_Init \/ T_Att \/ Silent \/ T_Unlink \/ T_Opendir \/ T_Scan \/ T_Stutter \/ T_End \/ T_Skip
TraceSpec == TraceInit /\ [][TraceNext]_tvars

Progress == TLCSet(1, IF TLCGet(1) > l THEN TLCGet(1) ELSE l)
ASSUME TLCSet(1, 0)
Accepted ==
    /\ PrintT(<<"CONSUMED", ToJson([lines |-> Len(Rec), diameter |-> TLCGet(1)])>>)
    /\ TRUE
\* C13/C03 on the driven states: the library never removed an entry of a directory that never was inside the root
RemovalsInside == ~bad
=============================================================================
