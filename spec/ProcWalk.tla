------------------------------ MODULE ProcWalk ------------------------------
(***************************************************************************)
(* The emulated procfs resolver (src/resolvers/procfs.rs opath_resolve,    *)
(* src/procfs.rs open / verify_same_procfs_mnt) as a STEP machine, one     *)
(* action per system call, with a racing mounter: what Procfs.tla states   *)
(* for static over-mounts is stated here for mounts that appear WHILE the  *)
(* lookup runs.                                                            *)
(*   S_Open      openat(current, component, O_PATH|O_NOFOLLOW)   by name   *)
(*   S_Chk       statx(next, "", STATX_MNT_ID...)   on the held descriptor *)
(*   S_Stat      fstat(next): directory / file / symlink / magic-link      *)
(*   S_Readlink  readlinkat(next, "")               on the held descriptor *)
(*   S_Final     openat(current, component, flags)  by name, then the      *)
(*               mount-id / fstype check of the result                     *)
(*   Mount       the attacker mounts something over a node (seen only by   *)
(*               by-name lookups made afterwards, and only through handle  *)
(*               kinds that see the host's mounts)                         *)
(* An object is [node, fk]: fk = "none" for the genuine procfs object of   *)
(* the node, otherwise the kind of over-mount whose object (or a           *)
(* descendant of it) is held instead.                                      *)
(* GenuineStep: a successful lookup returns the genuine object of the node *)
(* that the path names in a pristine procfs -- for every placement of the  *)
(* racing mounts.  Mechanism switches: ChkEachStep, ChkFinal (as coded);   *)
(* SkipChkOnSymlinks (seeded changes C06a/b) and ReadlinkByName (seeded    *)
(* change C06c) must violate it.                                           *)
(***************************************************************************)
EXTENDS Naturals, Sequences, FiniteSets, TLC

CONSTANTS HandleKinds, Resolvers, MaxMounts, EmitCases, ChkEachStep, ChkFinal, ChkLinkDentry, ChkBase,
          MaxRace,             \* racing mounts per lookup
          SkipChkOnSymlinks,   \* FALSE = the code
          ReadlinkByName       \* FALSE = the code (the body is read from the verified descriptor)

VARIABLES om, hk, rs, cs, op, done, res,      \* as in Procfs.tla (om is dynamic here)
          pc, cur, rem, nxt, ntrav, nrace

vars == <<om, hk, rs, cs, op, done, res, pc, cur, rem, nxt, ntrav, nrace>>

P == INSTANCE Procfs

\* the skeleton, plus what a symlink over-mount "-> 1" leads to
KindW(n) == IF n = "pid1status" THEN "file" ELSE P!Kind(n)
ChildW(d, name) == IF d = "pid1" /\ name = "status" THEN "pid1status" ELSE P!Child(d, name)

Obj(n, k) == [node |-> n, fk |-> k]
RootObj == Obj("root", "none")
IsLink(o) == o.fk = "bind-symlink" \/ (o.fk = "none" /\ KindW(o.node) = "sym")
IsMagic(o) == o.fk = "none" /\ KindW(o.node) = "magic"
IsDirObj(o) == IF o.fk \in {"tmpfs", "bind-procdir"} THEN TRUE ELSE IF o.fk = "none" THEN KindW(o.node) = "dir" ELSE FALSE
BodyOf(o) == IF o.fk = "bind-symlink" THEN <<"1">> ELSE P!SymBody(o.node)

\* a lookup BY NAME in the directory object d, under the mounts that exist now
Lookup(d, name) ==
    LET ch == ChildW(d.node, name) IN
    IF ~IsDirObj(d) THEN [ok |-> FALSE, err |-> "ENOTDIR"]
    ELSE IF d.fk = "tmpfs" \/ ch = "none" THEN [ok |-> FALSE, err |-> "ENOENT"]
    ELSE IF d.fk # "none" THEN [ok |-> TRUE, obj |-> Obj(ch, d.fk)]                 \* inside a foreign directory
    ELSE IF P!SeesOvermounts(hk) /\ \E m \in om : m.node = ch
         THEN [ok |-> TRUE, obj |-> Obj(ch, (CHOOSE m \in om : m.node = ch).kind)]
         ELSE [ok |-> TRUE, obj |-> Obj(ch, "none")]

WalkCases == { [base |-> b, path |-> p] : <<b, p>> \in {
    <<"self", <<"status">>>>, <<"self", <<"attr", "current">>>>, <<"tself", <<"status">>>>, <<"root", <<"stat">>>>,
    <<"root", <<"mounts">>>>, <<"self", <<"exe">>>>, <<"self", <<"fd", "N">>>>, <<"root", <<"self", "status">>>> } }
WalkOps == {"open", "open_path"}
FinalMode == IF op = "open_path" THEN "nofollow-path" ELSE "nofollow"

Fail(e) == /\ res' = [ok |-> FALSE, err |-> e] /\ done' = TRUE /\ pc' = "done"
Succeed(o) == /\ res' = [ok |-> TRUE, obj |-> o] /\ done' = TRUE /\ pc' = "done"

Init ==
    /\ om = {} /\ hk \in HandleKinds /\ rs = "opath" /\ cs \in WalkCases /\ op \in WalkOps
    /\ done = FALSE /\ res = [ok |-> FALSE, err |-> "none"]
    /\ pc = "open" /\ cur = RootObj /\ rem = P!BasePath(cs.base) \o cs.path /\ nxt = RootObj /\ ntrav = 0 /\ nrace = 0

Last == Len(rem) = 1

S_Open ==
    /\ pc = "open"
    /\ LET l == Lookup(cur, Head(rem)) IN
       IF ~l.ok THEN Fail(l.err) /\ UNCHANGED nxt
       ELSE nxt' = l.obj /\ pc' = "chk" /\ UNCHANGED <<res, done>>
    /\ UNCHANGED <<om, hk, rs, cs, op, cur, rem, ntrav, nrace>>

S_Chk ==
    /\ pc = "chk"
    /\ IF ChkEachStep /\ nxt.fk # "none" /\ ~(SkipChkOnSymlinks /\ IsLink(nxt)) THEN Fail("EXDEV")
       ELSE pc' = "stat" /\ UNCHANGED <<res, done>>
    /\ UNCHANGED <<om, hk, rs, cs, op, cur, rem, nxt, ntrav, nrace>>

S_Stat ==
    /\ pc = "stat"
    /\ IF IsLink(nxt) THEN
            IF Last /\ FinalMode = "nofollow-path" THEN pc' = "final" /\ UNCHANGED <<res, done, cur, rem>>
            ELSE IF Last THEN Fail("ELOOP") /\ UNCHANGED <<cur, rem>>
            ELSE IF ntrav >= 8 THEN Fail("ELOOP") /\ UNCHANGED <<cur, rem>>
            ELSE pc' = "readlink" /\ UNCHANGED <<res, done, cur, rem>>
       ELSE IF IsMagic(nxt) THEN
            IF ~Last THEN Fail("ELOOP") /\ UNCHANGED <<cur, rem>>
            ELSE IF FinalMode = "nofollow-path" THEN pc' = "final" /\ UNCHANGED <<res, done, cur, rem>>
            ELSE Fail("ELOOP") /\ UNCHANGED <<cur, rem>>
       ELSE IF Last THEN pc' = "final" /\ UNCHANGED <<res, done, cur, rem>>
       ELSE cur' = nxt /\ rem' = Tail(rem) /\ pc' = "open" /\ UNCHANGED <<res, done>>
    /\ UNCHANGED <<om, hk, rs, cs, op, nxt, ntrav, nrace>>

S_Readlink ==
    /\ pc = "readlink"
    /\ LET o == IF ReadlinkByName THEN Lookup(cur, Head(rem)) ELSE [ok |-> TRUE, obj |-> nxt] IN
       IF ~o.ok THEN Fail(o.err) /\ UNCHANGED <<cur, rem, ntrav>>
       ELSE IF ~IsLink(o.obj) THEN Fail("EINVAL") /\ UNCHANGED <<cur, rem, ntrav>>
       ELSE /\ cur' = RootObj /\ rem' = BodyOf(o.obj) \o Tail(rem) /\ ntrav' = ntrav + 1 /\ pc' = "open"
            /\ UNCHANGED <<res, done>>
    /\ UNCHANGED <<om, hk, rs, cs, op, nxt, nrace>>

\* the real open of the last component (by name, relative to the directory that is held), then the final check
S_Final ==
    /\ pc = "final"
    /\ LET l == Lookup(cur, Head(rem)) IN
       IF ~l.ok THEN Fail(l.err)
       ELSE IF ChkFinal /\ l.obj.fk # "none" THEN Fail("EXDEV")
       ELSE IF FinalMode = "nofollow" /\ (IsLink(l.obj) \/ IsMagic(l.obj)) THEN Fail("ELOOP")
       ELSE Succeed(l.obj)
    /\ UNCHANGED <<om, hk, rs, cs, op, cur, rem, nxt, ntrav, nrace>>

Mount ==
    /\ ~done /\ nrace < MaxRace
    /\ \E m \in P!Mounts : (\A x \in om : x.node # m.node) /\ om' = om \cup {m}
    /\ nrace' = nrace + 1
    /\ UNCHANGED <<hk, rs, cs, op, done, res, pc, cur, rem, nxt, ntrav>>

Next == S_Open \/ S_Chk \/ S_Stat \/ S_Readlink \/ S_Final \/ Mount
Spec == Init /\ [][Next]_vars

\* the node the path names in a pristine procfs
RECURSIVE PNode(_, _, _)
PNode(c, r, n) ==
    IF r = <<>> THEN c
    ELSE LET ch == ChildW(c, Head(r)) IN
         IF ch = "none" \/ n > 10 THEN "none"
         ELSE IF KindW(ch) = "sym" /\ Len(r) > 1 THEN PNode("root", P!SymBody(ch) \o Tail(r), n + 1)
         ELSE PNode(ch, Tail(r), n)
Intended == PNode("root", P!BasePath(cs.base) \o cs.path, 0)

GenuineStep == (done /\ res.ok) => (res.obj.fk = "none" /\ res.obj.node = Intended)
\* handles that do not see the host's mounts are unaffected by racing mounts: same outcome as without any
PrivateUnaffectedStep == (done /\ ~P!SeesOvermounts(hk) /\ Intended # "none") =>
                            (res.ok => res.obj = Obj(Intended, "none"))
TypeOK == pc \in {"open", "chk", "stat", "readlink", "final", "done"}
=============================================================================
