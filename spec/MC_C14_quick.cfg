SPECIFICATION Spec
CONSTANTS
  Trees <- const_TreesQuick
  Ops <- const_Ops
  MaxIno = 20
  KMaxLinks = 40
  EmitCases = FALSE
  RefuseDotNames = FALSE
  RefuseOPathCreate = TRUE
  KeepDotInStack = FALSE
INVARIANTS TypeOK OutsideFrame ResultInside
CHECK_DEADLOCK FALSE
