------------------------------- MODULE Mkdir2 -------------------------------
(***************************************************************************)
(* Two (or more) concurrent Root::mkdir_all calls (src/root.rs:940-1068)   *)
(* on one tree, interleaved at system-call granularity.  One action per    *)
(* system call of the implementation:                                      *)
(*   Try     one openat2 attempt of the partial lookup (full path, then    *)
(*           each ancestor; src/resolvers/openat2.rs:126-163)              *)
(*   Reopen  O_DIRECTORY reopen of the deepest existing directory, the     *)
(*           ENOENT-only rule, refusal of ".." in the missing tail         *)
(*   Mk      mkdirat(current, part)   -- EEXIST tolerated                  *)
(*   Open    openat(current, part, O_DIRECTORY|O_NOFOLLOW)                 *)
(* C12 (concurrency clause): all callers succeed, return the in-root       *)
(* resolution of their path, and only directories named by the paths were  *)
(* added.                                                                  *)
(***************************************************************************)
EXTENDS VFS, SequencesExt

CONSTANTS Procs, Scenario, MaxIno, KMaxLinks,
          TolerateEEXIST,    \* TRUE = the code; FALSE = mechanism removed (a racing creator makes the loser fail)
          MaxAttack,         \* attacker budget: renames of directories (never the root's own dentry) between any two steps
          RefuseDotDotTail,  \* TRUE = the code (root.rs: ".." in the not-yet-existing tail is refused); FALSE = mechanism removed
          AtkMkdirNames      \* names the attacker may create inside the root (a component the lookup found missing appears)

VARIABLES fs, fs0, pth, pc, k, lasterr, cur, parts, res, nextIno,
          who,     \* the process that made the last step (read by the schedule generator only)
          natk, everIn, outsideMk   \* attacker budget used; ghost: inodes ever inside the root; did a library mkdirat use a parent that never was inside?

vars == <<fs, fs0, pth, pc, k, lasterr, cur, parts, res, nextIno, who, natk, everIn, outsideMk>>

Ino == 1..MaxIno
BaseDents == {<<P, "root", R>>, <<P, "out", O>>, <<O, "secret", SECRET>>}
MkFs(nodes) ==
    [dents |-> BaseDents \cup {<<nodes[i].p, nodes[i].n, nodes[i].id>> : i \in DOMAIN nodes},
     kind  |-> [i \in Ino |-> IF i \in {P, R, O} THEN "dir" ELSE IF i = SECRET THEN "file"
                              ELSE IF \E j \in DOMAIN nodes : nodes[j].id = i THEN nodes[CHOOSE j \in DOMAIN nodes : nodes[j].id = i].k ELSE "free"],
     body  |-> [i \in Ino |-> IF \E j \in DOMAIN nodes : nodes[j].id = i /\ nodes[j].k = "lnk"
                              THEN nodes[CHOOSE j \in DOMAIN nodes : nodes[j].id = i].b ELSE <<>>]]

FollowFlags == [follow |-> TRUE, dir |-> FALSE, opath |-> TRUE, nosym |-> FALSE]
Path(p) == pth[p]     \* the callers' paths: a variable only so that TraceMkdir2 can replay many recorded cases in one run

\* Ancestors::next (src/utils/path.rs:172-232)
RECURSIVE AncFrom(_, _)
AncFrom(raw, i) ==
    IF i < 2 THEN << [anc |-> <<".">>, rem |-> IF raw = <<"">> THEN <<>> ELSE raw] >>
    ELSE LET a0  == SubSeq(raw, 1, i - 1)
             anc == IF a0 = <<"">> THEN <<"", "">> ELSE a0
             r0  == SubSeq(raw, i, Len(raw))
             rem == IF r0 = <<"">> THEN <<>> ELSE r0
             ends == anc = <<"", "">> \/ anc = <<".">> \/ anc = <<"">>
         IN  << [anc |-> anc, rem |-> rem] >> \o (IF ends THEN <<>> ELSE AncFrom(raw, i - 1))
\* attempt 0 is the full path, attempts 1.. are the ancestors
Attempts(raw) == << [anc |-> raw, rem |-> <<>>] >> \o AncFrom(raw, Len(raw))

Init ==
    /\ fs0 = MkFs(Scenario.nodes) /\ fs = fs0 /\ pth = Scenario.paths
    /\ pc = [p \in Procs |-> "try"] /\ k = [p \in Procs |-> 1] /\ lasterr = [p \in Procs |-> ""]
    /\ cur = [p \in Procs |-> R] /\ parts = [p \in Procs |-> <<>>] /\ res = [p \in Procs |-> Err("none")]
    /\ nextIno = Scenario.firstFree /\ who = ""
    /\ natk = 0 /\ everIn = ReachFrom(MkFs(Scenario.nodes), {R}) /\ outsideMk = FALSE

Fail(p, e) == /\ res' = [res EXCEPT ![p] = Err(e)] /\ pc' = [pc EXCEPT ![p] = "done"]

Try(p) ==
    /\ pc[p] = "try"
    /\ LET as == Attempts(Path(p)) IN
       IF k[p] > Len(as) THEN Fail(p, lasterr[p]) /\ UNCHANGED <<fs, k, lasterr, cur, parts, nextIno>>
       ELSE LET r == KResolve(fs, R, as[k[p]].anc, FollowFlags, KMaxLinks) IN
            IF r.ok THEN
                /\ cur' = [cur EXCEPT ![p] = r.ino]
                /\ parts' = [parts EXCEPT ![p] = as[k[p]].rem]
                /\ pc' = [pc EXCEPT ![p] = "reopen"]
                /\ UNCHANGED <<fs, k, lasterr, res, nextIno>>
            ELSE /\ lasterr' = [lasterr EXCEPT ![p] = r.err] /\ k' = [k EXCEPT ![p] = @ + 1]
                 /\ UNCHANGED <<fs, pc, cur, parts, res, nextIno>>
    /\ UNCHANGED fs0

Reopen(p) ==
    /\ pc[p] = "reopen"
    /\ LET tail == SelectSeq(parts[p], LAMBDA c : c \notin {"", "."}) IN
       IF lasterr[p] \notin {"", "ENOENT"} THEN Fail(p, lasterr[p]) /\ UNCHANGED parts
       ELSE IF ~IsDir(fs, cur[p]) THEN Fail(p, "ENOTDIR") /\ UNCHANGED parts
       ELSE IF RefuseDotDotTail /\ \E i \in DOMAIN tail : tail[i] = ".." THEN Fail(p, "ENOENT") /\ UNCHANGED parts
       ELSE IF tail = <<>> THEN res' = [res EXCEPT ![p] = Ok(cur[p])] /\ pc' = [pc EXCEPT ![p] = "done"] /\ UNCHANGED parts
       ELSE parts' = [parts EXCEPT ![p] = tail] /\ pc' = [pc EXCEPT ![p] = "mk"] /\ UNCHANGED res
    /\ UNCHANGED <<fs, fs0, k, lasterr, cur, nextIno>>

Mk(p) ==
    /\ pc[p] = "mk"
    /\ LET m == Mkdirat(fs, cur[p], Head(parts[p]), nextIno) IN
       IF m.res.ok THEN fs' = m.fs /\ nextIno' = nextIno + 1 /\ pc' = [pc EXCEPT ![p] = "open"] /\ UNCHANGED res
       ELSE IF m.res.err = "EEXIST" /\ TolerateEEXIST THEN pc' = [pc EXCEPT ![p] = "open"] /\ UNCHANGED <<fs, nextIno, res>>
       ELSE Fail(p, m.res.err) /\ UNCHANGED <<fs, nextIno>>
    /\ UNCHANGED <<fs0, k, lasterr, cur, parts>>

Open(p) ==
    /\ pc[p] = "open"
    /\ LET o == OpenatNoFollow(fs, cur[p], Head(parts[p])) IN
       IF ~o.ok THEN Fail(p, o.err) /\ UNCHANGED <<cur, parts>>
       ELSE IF ~IsDir(fs, o.ino) THEN Fail(p, "ENOTDIR") /\ UNCHANGED <<cur, parts>>
       ELSE /\ cur' = [cur EXCEPT ![p] = o.ino] /\ parts' = [parts EXCEPT ![p] = Tail(@)]
            /\ IF Tail(parts[p]) = <<>>
               THEN res' = [res EXCEPT ![p] = Ok(o.ino)] /\ pc' = [pc EXCEPT ![p] = "done"]
               ELSE pc' = [pc EXCEPT ![p] = "mk"] /\ UNCHANGED res
    /\ UNCHANGED <<fs, fs0, k, lasterr, nextIno>>

\* the attacker moves a directory (not the root) somewhere else -- e.g. out of the root
Attack ==
    /\ natk < MaxAttack /\ \E p \in Procs : pc[p] # "done"
    /\ \E e \in fs.dents : \E dd \in {O, P} :
          /\ e[3] \notin {P, R, O} /\ IsDir(fs, e[3]) /\ ~HasChild(fs, dd, "moved")
          /\ LET r == Renameat(fs, e[1], e[2], dd, "moved", "") IN r.res.ok /\ fs' = r.fs
    /\ natk' = natk + 1 /\ who' = "attacker"
    /\ UNCHANGED <<fs0, pc, k, lasterr, cur, parts, res, nextIno, outsideMk>>

\* the attacker creates a directory inside the root under one of AtkMkdirNames (e.g. the component the partial lookup
\* has just found missing, so that a later, shorter attempt of the lookup resolves through it)
AttackMkdir ==
    /\ natk < MaxAttack /\ \E p \in Procs : pc[p] # "done"
    /\ \E d \in ReachFrom(fs, {R}) : \E n \in AtkMkdirNames :
          /\ IsDir(fs, d) /\ ~HasChild(fs, d, n)
          /\ LET m == Mkdirat(fs, d, n, nextIno) IN m.res.ok /\ fs' = m.fs
    /\ nextIno' = nextIno + 1 /\ natk' = natk + 1 /\ who' = "attacker"
    /\ UNCHANGED <<fs0, pc, k, lasterr, cur, parts, res, outsideMk>>

LibStep(p) ==
    /\ (Try(p) \/ Reopen(p) \/ Mk(p) \/ Open(p))
    /\ who' = p /\ natk' = natk
    \* C03 ghost: a creating step whose parent directory was never inside the root
    /\ outsideMk' = (outsideMk \/ (pc[p] = "mk" /\ cur[p] \notin everIn))

Next == /\ ((\E p \in Procs : LibStep(p)) \/ Attack \/ AttackMkdir)
        /\ everIn' = everIn \cup ReachFrom(fs', {R})
        /\ pth' = pth
Spec == Init /\ [][Next]_vars

AllDone == \A p \in Procs : pc[p] = "done"
\* C12: concurrent callers all succeed ...
AllSucceed == (AllDone /\ natk = 0) => \A p \in Procs : res[p].ok
\* ... and return handles of the in-root resolution of their paths in the final tree
HandleIsResolution ==
    (AllDone /\ natk = 0) => \A p \in Procs : res[p].ok => LET r == KResolve(fs, R, Path(p), FollowFlags, KMaxLinks) IN r.ok /\ r.ino = res[p].ino
\* nothing but new directories is added, nothing is removed or replaced
OnlyNewDirs == natk = 0 =>
               /\ fs0.dents \subseteq fs.dents
               /\ \A d \in fs.dents \ fs0.dents : fs.kind[d[3]] = "dir" /\ fs0.kind[d[3]] = "free"
\* C03: no directory entry is created in a directory that was never inside the root
MutationsInside == ~outsideMk
TypeOK == \A p \in Procs : pc[p] \in {"try", "reopen", "mk", "open", "done"}
=============================================================================
