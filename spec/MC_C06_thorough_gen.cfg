SPECIFICATION Spec
CONSTANTS
  HandleKinds = {"fsopen", "fsopen_subset", "open_tree", "open_tree_rec", "open", "userfd_open"}
  Resolvers = {"openat2", "opath"}
  MaxMounts = 2
  EmitCases = TRUE
  ChkEachStep = TRUE
  ChkFinal = TRUE
  ChkLinkDentry = TRUE
  ChkBase = TRUE
INVARIANTS TypeOK CaseOut
CHECK_DEADLOCK FALSE
