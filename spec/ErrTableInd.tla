---------------------------- MODULE ErrTableInd ----------------------------
(***************************************************************************)
(* The C error table of ErrTable.tla in a form Apalache can type-check,    *)
(* with an inductive invariant that implies LiveIdsDistinct and            *)
(* ConsumeReturnsThatFailure for ANY number of operations (unbounded in    *)
(* time; threads and id space are small fixed sets).                       *)
(*   Init => IndInv                       (apalache-mc check --length=0)   *)
(*   IndInv /\ Next => IndInv'            (--init=IndInit --length=1)      *)
(* The table is a set of <<id, tag>> pairs; "held" what callers hold.      *)
(***************************************************************************)
EXTENDS Integers, FiniteSets

CONSTANTS
    \* @type: Set(Str);
    Threads,
    \* @type: Set(Int);
    IdSpace

VARIABLES
    \* @type: Set(<<Int, Int>>);
    table,
    \* @type: Str;
    lock,
    \* @type: Str -> Str;
    pc,
    \* @type: Str -> Int;
    pick,
    \* @type: Set(<<Int, Int>>);
    held,
    \* @type: Int;
    nops

ConstInit == Threads = {"t1", "t2", "t3"} /\ IdSpace = {-4098, -4097, -4096}

\* @type: (Set(<<Int, Int>>)) => Set(Int);
Ids(S) == {p[1] : p \in S}

Init ==
    /\ table = {} /\ lock = "none" /\ pc = [t \in Threads |-> "idle"] /\ pick = [t \in Threads |-> 0]
    /\ held = {} /\ nops = 0

FailLock(t) ==
    /\ pc[t] = "idle" /\ lock = "none"
    /\ lock' = t /\ pc' = [pc EXCEPT ![t] = "picking"] /\ nops' = nops + 1
    /\ UNCHANGED <<table, pick, held>>
PickId(t) ==
    /\ pc[t] = "picking" /\ lock = t
    /\ \E id \in IdSpace :
          IF id \in Ids(table)
          THEN UNCHANGED <<table, pc, pick>>
          ELSE /\ table' = table \union {<<id, nops>>}
               /\ pick' = [pick EXCEPT ![t] = id]
               /\ pc' = [pc EXCEPT ![t] = "stored"]
    /\ UNCHANGED <<lock, nops, held>>
FailReturn(t) ==
    /\ pc[t] = "stored" /\ lock = t
    /\ lock' = "none" /\ pc' = [pc EXCEPT ![t] = "idle"]
    /\ held' = held \union {p \in table : p[1] = pick[t]}
    /\ UNCHANGED <<table, pick, nops>>
Consume(t) ==
    /\ pc[t] = "idle" /\ lock = "none"
    /\ \E h \in held :
          /\ table' = {p \in table : p[1] # h[1]}
          /\ held' = held \ {h}
    /\ UNCHANGED <<lock, pc, pick, nops>>

Next == \E t \in Threads : FailLock(t) \/ PickId(t) \/ FailReturn(t) \/ Consume(t)

\* ---- the properties and the inductive invariant ------------------------------------------------
IdBelowErrnoRange == \A p \in table : p[1] <= -4096
LiveIdsDistinct == \A a \in held : \A b \in held : a[1] = b[1] => a = b
\* what a caller holds is exactly what the table stores under that id: consuming returns that failure
HeldIsStored == held \subseteq table
TableFunctional == \A a \in table : \A b \in table : a[1] = b[1] => a = b

TypeOK ==
    /\ table \subseteq (IdSpace \X (0..1000000)) /\ held \subseteq (IdSpace \X (0..1000000))
    /\ lock \in Threads \union {"none"}
    /\ pc \in [Threads -> {"idle", "picking", "stored"}]
    /\ pick \in [Threads -> IdSpace \union {0}]
    /\ nops \in 0..1000000
IndInv ==
    /\ TypeOK
    /\ TableFunctional
    /\ HeldIsStored
    /\ \A p \in table : p[1] \in IdSpace
    \* the lock is held exactly by the thread that is inside store_error
    /\ \A t \in Threads : (pc[t] # "idle") <=> (lock = t)
    \* an id that has been inserted but not yet handed out is in the table and not yet held
    /\ \A t \in Threads : pc[t] = "stored" => (pick[t] \in Ids(table) /\ pick[t] \notin Ids(held))
Safety == IdBelowErrnoRange /\ LiveIdsDistinct /\ HeldIsStored
\* the pre-state of the inductive step, in Apalache's assignment form (tags only matter up to equality)
IndInit ==
    /\ table \in SUBSET (IdSpace \X (0..4)) /\ held \in SUBSET (IdSpace \X (0..4))
    /\ lock \in Threads \union {"none"}
    /\ pc \in [Threads -> {"idle", "picking", "stored"}]
    /\ pick \in [Threads -> IdSpace \union {0}]
    /\ nops \in 0..4
    /\ IndInv
=============================================================================
