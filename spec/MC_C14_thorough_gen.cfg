SPECIFICATION Spec
CONSTANTS
  Trees <- const_TreesThorough
  Ops <- const_Ops
  MaxIno = 20
  KMaxLinks = 40
  EmitCases = TRUE
  RefuseDotNames = FALSE
  RefuseOPathCreate = TRUE
  KeepDotInStack = FALSE
INVARIANTS TypeOK CaseOut
CHECK_DEADLOCK FALSE
