------------------------------- MODULE VFS -------------------------------
(***************************************************************************)
(* The kernel VFS as libpathrs sees it.                                    *)
(*                                                                         *)
(* A file system state `fs` is a record                                    *)
(*    dents : set of <<parent, name, child>>  (directory entries)          *)
(*    kind  : function  inode -> "dir" | "file" | "lnk" | "fifo" | ...     *)
(*    body  : function  inode -> raw component sequence of a symlink body  *)
(*            (the string split on "/", exactly RawComponents of           *)
(*            src/utils/path.rs:  "/a/" = <<"", "a", "">>,  "" = <<"">>)   *)
(* Descriptors are bound to inodes, never to paths: every operator takes   *)
(* inode numbers where the real call takes a descriptor.                   *)
(*                                                                         *)
(* Distinguished inodes: P = the root's parent, R = the root, O = a        *)
(* directory next to the root ("out"), SECRET = a host file inside O.      *)
(***************************************************************************)
EXTENDS Naturals, Sequences, FiniteSets, TLC

P      == 1
R      == 2
O      == 3
SECRET == 4

Ok(i)    == [ok |-> TRUE, ino |-> i]
Err(e)   == [ok |-> FALSE, err |-> e]

HasChild(fs, d, n) == \E e \in fs.dents : e[1] = d /\ e[2] = n
Child(fs, d, n)    == (CHOOSE e \in fs.dents : e[1] = d /\ e[2] = n)[3]
Linked(fs, i)      == \E e \in fs.dents : e[3] = i
\* parent of a directory (directories have at most one dentry); P is its own parent
Parent(fs, d)      == IF d = P \/ ~Linked(fs, d) THEN d
                      ELSE (CHOOSE e \in fs.dents : e[3] = d)[1]
Children(fs, d)    == {e \in fs.dents : e[1] = d}
IsDir(fs, i)       == fs.kind[i] = "dir"
IsLnk(fs, i)       == fs.kind[i] = "lnk"

\* inodes reachable from the set S through directory entries
RECURSIVE ReachFrom(_, _)
ReachFrom(fs, S) ==
    LET N == S \cup {e[3] : e \in {x \in fs.dents : x[1] \in S}}
    IN  IF N = S THEN S ELSE ReachFrom(fs, N)
InRootSet(fs) == ReachFrom(fs, {R})

\* is directory a an ancestor-or-self of b ?
RECURSIVE IsAncestor(_, _, _)
IsAncestor(fs, a, b) ==
    IF a = b THEN TRUE
    ELSE IF b = P \/ ~Linked(fs, b) THEN FALSE
    ELSE IsAncestor(fs, a, Parent(fs, b))

\* d_path(): component names from P down to i; <<"(deleted)">> if i (or an ancestor) is unlinked
RECURSIVE DPath(_, _)
DPath(fs, i) ==
    IF i = P THEN <<>>
    ELSE IF ~Linked(fs, i) THEN <<"(deleted)">>
    ELSE LET e == CHOOSE x \in fs.dents : x[3] = i
             up == DPath(fs, e[1])
         IN  IF up # <<>> /\ up[1] = "(deleted)" THEN up ELSE Append(up, e[2])

(***************************************************************************)
(* Path strings.  A raw component sequence is normalised the way           *)
(* fs/namei.c reads a string: empty components vanish, a leading one makes *)
(* the path absolute, a trailing one is a trailing slash.                  *)
(***************************************************************************)
NonEmpty(raw) == SelectSeq(raw, LAMBDA c : c # "")
Norm(raw) ==
    LET comps == NonEmpty(raw)
    IN  [comps |-> comps,
         abs   |-> Len(raw) > 1 /\ raw[1] = "",
         slash |-> Len(raw) > 1 /\ raw[Len(raw)] = "" /\ comps # <<>>]
IsEmptyPath(raw) == raw = <<"">> \/ raw = <<>>

(***************************************************************************)
(* openat2(root, path, {O_PATH-like lookup}, RESOLVE_IN_ROOT |             *)
(* RESOLVE_NO_MAGICLINKS [| RESOLVE_NO_SYMLINKS]) -- the executable         *)
(* definition of "kernel in-root resolution".                              *)
(*   fl.follow : follow a trailing symlink (no O_NOFOLLOW)                 *)
(*   fl.dir    : O_DIRECTORY or trailing slash (LOOKUP_DIRECTORY)          *)
(*   fl.opath  : O_PATH (a non-followed trailing link is returned itself)  *)
(*   fl.nosym  : RESOLVE_NO_SYMLINKS                                       *)
(* Result: Ok(inode) or Err(errno name).  `max` = MAXSYMLINKS (40).        *)
(***************************************************************************)
\* directories the caller may not search (no x permission): optional field of the tree record.  may_lookup() is asked at
\* the top of every step of the walk -- for "." and ".." too -- after the "is it a directory" test of the previous step
NoX(fs) == IF "nox" \in DOMAIN fs THEN fs.nox ELSE {}

RECURSIVE KWalk(_, _, _, _, _, _, _)
KWalk(fs, root, cur, rem, n, fl, max) ==
    IF rem = <<>> THEN
        IF fl.dir /\ ~IsDir(fs, cur) THEN Err("ENOTDIR") ELSE Ok(cur)
    ELSE
    LET c == Head(rem)  rest == Tail(rem)  last == (rest = <<>>) IN
    IF ~IsDir(fs, cur) THEN Err("ENOTDIR")
    ELSE IF cur \in NoX(fs) THEN Err("EACCES")
    ELSE IF c = "." THEN KWalk(fs, root, cur, rest, n, fl, max)
    ELSE IF c = ".." THEN
        KWalk(fs, root, IF cur = root THEN root ELSE Parent(fs, cur), rest, n, fl, max)
    ELSE IF ~HasChild(fs, cur, c) THEN Err("ENOENT")
    ELSE
    LET ch == Child(fs, cur, c) IN
    IF ~IsLnk(fs, ch) THEN KWalk(fs, root, ch, rest, n, fl, max)
    ELSE IF last /\ ~fl.follow THEN
        \* trailing link, not followed
        IF fl.dir THEN Err("ENOTDIR")
        ELSE IF fl.opath THEN Ok(ch) ELSE Err("ELOOP")
    ELSE IF fl.nosym THEN Err("ELOOP")
    ELSE IF n >= max THEN Err("ELOOP")
    ELSE
    LET nb  == Norm(fs.body[ch])
        st  == IF nb.abs THEN root ELSE cur
        fl2 == IF last /\ nb.slash THEN [fl EXCEPT !.dir = TRUE, !.follow = TRUE] ELSE fl
    IN  IF fs.body[ch] = <<"">> THEN Err("ENOENT")
        ELSE KWalk(fs, root, st, nb.comps \o rest, n + 1, fl2, max)

KResolve(fs, root, raw, fl, max) ==
    IF IsEmptyPath(raw) THEN Err("ENOENT")
    ELSE LET np  == Norm(raw)
             fl2 == IF np.slash THEN [fl EXCEPT !.dir = TRUE, !.follow = TRUE] ELSE fl
         IN  KWalk(fs, root, root, np.comps, 0, fl2, max)

(***************************************************************************)
(* The open phase: what open(2) does with the object the walk arrived at.  *)
(* acc in {"RDONLY","WRONLY","RDWR","PATH"}                                *)
(***************************************************************************)
OpenPhase(fs, r, acc, odir, otrunc) ==
    IF ~r.ok THEN r
    ELSE IF acc = "PATH" THEN r
    ELSE LET k == fs.kind[r.ino] IN
         IF k = "lnk" THEN Err("ELOOP")
         ELSE IF k = "dir" /\ (acc \in {"WRONLY", "RDWR"} \/ otrunc) THEN Err("EISDIR")
         ELSE IF k = "sock" THEN Err("ENXIO")
         ELSE r

(***************************************************************************)
(* Single-component calls relative to a directory descriptor (the shapes   *)
(* the emulated backend and the mutating operations use).                  *)
(***************************************************************************)
\* openat(d, name, O_PATH|O_NOFOLLOW): name is one component (may be "." or "..")
OpenatNoFollow(fs, d, name) ==
    IF ~IsDir(fs, d) THEN Err("ENOTDIR")
    ELSE IF d \in NoX(fs) THEN Err("EACCES")
    ELSE IF name = "." THEN Ok(d)
    ELSE IF name = ".." THEN Ok(Parent(fs, d))
    ELSE IF ~Linked(fs, d) /\ d # P THEN Err("ENOENT")     \* lookups in a removed directory
    ELSE IF HasChild(fs, d, name) THEN Ok(Child(fs, d, name))
    ELSE Err("ENOENT")

\* tree mutations; `new` is the fresh inode for creations
DirEmpty(fs, d) == Children(fs, d) = {}

Mkdirat(fs, d, name, new) ==
    IF ~IsDir(fs, d) THEN [res |-> Err("ENOTDIR"), fs |-> fs]
    ELSE IF name \in {".", ".."} \/ HasChild(fs, d, name) THEN [res |-> Err("EEXIST"), fs |-> fs]
    ELSE IF ~Linked(fs, d) /\ d # P THEN [res |-> Err("ENOENT"), fs |-> fs]
    ELSE [res |-> Ok(new),
          fs  |-> [fs EXCEPT !.dents = @ \cup {<<d, name, new>>}, !.kind[new] = "dir"]]

Mknodat(fs, d, name, new, k) ==
    IF ~IsDir(fs, d) THEN [res |-> Err("ENOTDIR"), fs |-> fs]
    ELSE IF name \in {".", ".."} \/ HasChild(fs, d, name) THEN [res |-> Err("EEXIST"), fs |-> fs]
    ELSE IF ~Linked(fs, d) /\ d # P THEN [res |-> Err("ENOENT"), fs |-> fs]
    ELSE [res |-> Ok(new),
          fs  |-> [fs EXCEPT !.dents = @ \cup {<<d, name, new>>}, !.kind[new] = k]]

Symlinkat(fs, d, name, new, body) ==
    LET r == Mknodat(fs, d, name, new, "lnk") IN
    IF r.res.ok THEN [r EXCEPT !.fs.body[new] = body] ELSE r

\* unlinkat(d, name, 0)
Unlinkat(fs, d, name) ==
    IF ~IsDir(fs, d) THEN [res |-> Err("ENOTDIR"), fs |-> fs]
    ELSE IF name \in {".", ".."} THEN [res |-> Err("EISDIR"), fs |-> fs]
    ELSE IF ~HasChild(fs, d, name) THEN [res |-> Err("ENOENT"), fs |-> fs]
    ELSE LET c == Child(fs, d, name) IN
         IF IsDir(fs, c) THEN [res |-> Err("EISDIR"), fs |-> fs]
         ELSE [res |-> Ok(c), fs |-> [fs EXCEPT !.dents = @ \ {<<d, name, c>>}]]

\* unlinkat(d, name, AT_REMOVEDIR)
Rmdirat(fs, d, name) ==
    IF ~IsDir(fs, d) THEN [res |-> Err("ENOTDIR"), fs |-> fs]
    ELSE IF name = "." THEN [res |-> Err("EINVAL"), fs |-> fs]
    ELSE IF name = ".." THEN [res |-> Err("ENOTEMPTY"), fs |-> fs]
    ELSE IF ~HasChild(fs, d, name) THEN [res |-> Err("ENOENT"), fs |-> fs]
    ELSE LET c == Child(fs, d, name) IN
         IF ~IsDir(fs, c) THEN [res |-> Err("ENOTDIR"), fs |-> fs]
         ELSE IF ~DirEmpty(fs, c) THEN [res |-> Err("ENOTEMPTY"), fs |-> fs]
         ELSE [res |-> Ok(c), fs |-> [fs EXCEPT !.dents = @ \ {<<d, name, c>>}]]

\* renameat2(sd, sn, dd, dn, flags) with flags in {"", "NOREPLACE", "EXCHANGE"}
Renameat(fs, sd, sn, dd, dn, flag) ==
    IF flag = "INVALID" THEN [res |-> Err("EINVAL"), fs |-> fs]      \* unknown bits, or NOREPLACE together with EXCHANGE: refused before any lookup
    ELSE IF ~IsDir(fs, sd) \/ ~IsDir(fs, dd) THEN [res |-> Err("ENOTDIR"), fs |-> fs]
    ELSE IF sn \in {".", ".."} THEN [res |-> Err("EBUSY"), fs |-> fs]
    ELSE IF dn \in {".", ".."} THEN [res |-> Err(IF flag = "NOREPLACE" THEN "EEXIST" ELSE "EBUSY"), fs |-> fs]
    ELSE IF ~HasChild(fs, sd, sn) THEN [res |-> Err("ENOENT"), fs |-> fs]
    ELSE
    LET s == Child(fs, sd, sn)  has == HasChild(fs, dd, dn) IN
    \* order of fs/namei.c do_renameat2: NOREPLACE/EXCHANGE existence tests, then the lock_rename trap tests
    IF has /\ flag = "NOREPLACE" THEN [res |-> Err("EEXIST"), fs |-> fs]
    ELSE IF ~has /\ flag = "EXCHANGE" THEN [res |-> Err("ENOENT"), fs |-> fs]
    ELSE IF IsDir(fs, s) /\ IsAncestor(fs, s, dd) THEN [res |-> Err("EINVAL"), fs |-> fs]
    ELSE IF ~has THEN
        IF ~Linked(fs, dd) /\ dd # P THEN [res |-> Err("ENOENT"), fs |-> fs]
        ELSE [res |-> Ok(s), fs |-> [fs EXCEPT !.dents = (@ \ {<<sd, sn, s>>}) \cup {<<dd, dn, s>>}]]
    ELSE
    LET t == Child(fs, dd, dn) IN
    IF flag = "EXCHANGE" THEN
        IF IsDir(fs, t) /\ IsAncestor(fs, t, sd) THEN [res |-> Err("EINVAL"), fs |-> fs]
        ELSE [res |-> Ok(s),
              fs  |-> [fs EXCEPT !.dents = (@ \ {<<sd, sn, s>>, <<dd, dn, t>>}) \cup {<<dd, dn, s>>, <<sd, sn, t>>}]]
    ELSE IF s = t THEN [res |-> Ok(s), fs |-> fs]
    ELSE IF IsDir(fs, t) /\ IsAncestor(fs, t, sd) THEN [res |-> Err("ENOTEMPTY"), fs |-> fs]
    ELSE IF IsDir(fs, s) /\ ~IsDir(fs, t) THEN [res |-> Err("ENOTDIR"), fs |-> fs]
    ELSE IF ~IsDir(fs, s) /\ IsDir(fs, t) THEN [res |-> Err("EISDIR"), fs |-> fs]
    ELSE IF IsDir(fs, t) /\ ~DirEmpty(fs, t) THEN [res |-> Err("ENOTEMPTY"), fs |-> fs]
    ELSE [res |-> Ok(s),
          fs  |-> [fs EXCEPT !.dents = (@ \ {<<sd, sn, s>>, <<dd, dn, t>>}) \cup {<<dd, dn, s>>}]]

\* linkat(od, on, nd, nn, 0): never follows, directories refused
Linkat(fs, od, on, nd, nn) ==
    \* fs/namei.c do_linkat: the old path is looked up first (no-follow), then the new entry is
    \* prepared (filename_create), then vfs_link refuses directories
    LET old == OpenatNoFollow(fs, od, on) IN
    IF ~old.ok THEN [res |-> old, fs |-> fs]
    ELSE IF ~IsDir(fs, nd) THEN [res |-> Err("ENOTDIR"), fs |-> fs]
    ELSE IF nn \in {".", ".."} \/ HasChild(fs, nd, nn) THEN [res |-> Err("EEXIST"), fs |-> fs]
    ELSE IF ~Linked(fs, nd) /\ nd # P THEN [res |-> Err("ENOENT"), fs |-> fs]
    ELSE IF IsDir(fs, old.ino) THEN [res |-> Err("EPERM"), fs |-> fs]
    ELSE [res |-> Ok(old.ino), fs |-> [fs EXCEPT !.dents = @ \cup {<<nd, nn, old.ino>>}]]

(***************************************************************************)
(* fs.protected_symlinks (fs/namei.c may_follow_link): following is        *)
(* refused iff the sysctl is on, the link is not owned by the follower,    *)
(* the directory is sticky and world-writable, and the link's owner is not *)
(* the directory's owner.  Since Linux 4.2 (nd->flags & LOOKUP_... via     *)
(* trailing-symlink handling) it is applied where the kernel follows a     *)
(* link found in a sticky world-writable directory -- see C15.             *)
(***************************************************************************)
MayFollow(sysctl, fsuid, linkUid, dirUid, dirSticky, dirWW) ==
    \/ sysctl = 0
    \/ linkUid = fsuid
    \/ ~(dirSticky /\ dirWW)
    \/ linkUid = dirUid
=============================================================================
