SPECIFICATION Spec
CONSTANTS
  MaxDepth = 6
  RetryOnce = TRUE
  RememberENOENT = TRUE
  UnmaskedViaOpenTree = FALSE
INVARIANTS HandlesBounded MissingIsENOENT ExistingIsFound VisibleToPrivilegedIsFound
CHECK_DEADLOCK FALSE
