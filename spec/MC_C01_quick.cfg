SPECIFICATION Spec
CONSTANTS
  Trees <- const_TreesQuick
  Ops <- const_OpsAll
  Backends = {"emulated", "kernel"}
  MaxIno = 16
  KMaxLinks = 4
  EmuMaxLinks = 7
  KRetry = 2
  MaxAttack = 0
  AtkNames <- const_AtkNames
  AtkBodies <- const_AtkBodies
  AtkKinds = {"rename", "exchange", "unlink", "symlink", "mkdir"}
  ChkAfterDotDot = TRUE
  ChkFinal = TRUE
  ClampDotDot = TRUE
  RestartAbsAtRoot = TRUE
  NoFollowOnOpen = TRUE
  TrailingSlashIsDirTest = TRUE
  EmptyPathIsENOENT = TRUE
  EmitCases = TRUE
INVARIANTS TypeOK AgreesWithKernel InRoot Bounded CaseOut
CHECK_DEADLOCK FALSE
