------------------------------- MODULE Reopen -------------------------------
(***************************************************************************)
(* Handle::reopen / pathrs_reopen (src/utils/fd.rs:150-219 over            *)
(* ProcfsHandle::open_follow): a handle is a descriptor NUMBER bound to an *)
(* INODE; reopen goes through the fd magic-link of the caller's thread and *)
(* therefore addresses the inode, whatever has happened to the name since. *)
(*                                                                         *)
(* C09: SameInode, FlagsAsRequested (+O_CLOEXEC), SymlinkELOOP,            *)
(*      CreationRefused, IndependentOfNumber (0 included), independent of  *)
(*      rename / replace / unlink of the path between resolve and reopen.  *)
(***************************************************************************)
EXTENDS VFS, Json

CONSTANTS Kinds, Accs, Extras, Numbers, Histories, EmitCases,
          NumberMustBePositive    \* TRUE = proc_subpath as coded in the pinned snapshot (fd 0 refused)

VARIABLES kind, acc, extra, num, hist, done, res
vars == <<kind, acc, extra, num, hist, done, res>>

\* expected outcome of reopen for an inode of `kind` (the history cannot matter)
Expect(k, a, x) ==
    IF k = "lnk" THEN Err("ELOOP")
    ELSE IF x \in {"CREAT", "EXCL", "TMPFILE", "CREAT|EXCL"} THEN Err("InvalidArgument")
    ELSE IF x = "DIRECTORY" /\ k # "dir" THEN Err("ENOTDIR")
    ELSE IF a = "PATH" THEN Ok(1)
    ELSE IF k = "dir" /\ (a \in {"WRONLY", "RDWR"} \/ x = "TRUNC") THEN Err("EISDIR")
    ELSE IF k = "sock" THEN Err("ENXIO")
    ELSE IF k = "fifo" /\ a = "WRONLY" THEN Err("ENXIO")      \* O_WRONLY|O_NONBLOCK on a FIFO without a reader
    ELSE Ok(1)

Init ==
    /\ kind \in Kinds /\ acc \in Accs /\ extra \in Extras /\ num \in Numbers /\ hist \in Histories
    /\ done = FALSE /\ res = Err("none")
Eval ==
    /\ ~done /\ done' = TRUE
    /\ res' = IF NumberMustBePositive /\ num = 0 THEN Err("InvalidArgument") ELSE Expect(kind, acc, extra)
    /\ UNCHANGED <<kind, acc, extra, num, hist>>
Spec == Init /\ [][Eval]_vars

IndependentOfNumber == done => res = Expect(kind, acc, extra)
CaseOut == (EmitCases /\ done) =>
    PrintT(<<"CASE", ToJson([kind |-> kind, acc |-> acc, extra |-> extra, num |-> num, hist |-> hist, expect |-> Expect(kind, acc, extra)])>>)
=============================================================================
