---- MODULE MC_Remove2 ----
EXTENDS Remove2
N(id, pp, nm, kd, bd) == [id |-> id, p |-> pp, n |-> nm, k |-> kd, b |-> bd]
\* mirrors checks/mkrm.py CONC_TREES["rm"] (reduced): a/{b/{c/{f1}, f2}, l_out -> ../../out}, e/keep
NodesRm == << N(5, R, "a", "dir", <<>>), N(6, 5, "b", "dir", <<>>), N(7, 6, "c", "dir", <<>>), N(8, 7, "f1", "file", <<>>), N(9, 6, "f2", "file", <<>>),
              N(10, 5, "l_out", "lnk", <<"..", "..", "out">>), N(12, R, "e", "dir", <<>>), N(13, 12, "keep", "file", <<>>),
              N(11, R, "swap", "lnk", <<"..", "out">>), N(14, R, "swap2", "lnk", <<"..", "..", "out">>) >>
RA == [nodes |-> NodesRm, dir |-> R, name |-> "a", swap |-> <<R, "swap">>]
RB == [nodes |-> NodesRm, dir |-> 5, name |-> "b", swap |-> <<R, "swap2">>]
RL == [nodes |-> NodesRm, dir |-> 5, name |-> "l_out", swap |-> <<R, "swap">>]
\* the caller may not remove entries of e (12): the file e/keep stays, and so does e
RD == [nodes |-> NodesRm, dir |-> 12, name |-> "keep", swap |-> <<R, "swap">>, denied |-> {12}]
RE == [nodes |-> NodesRm, dir |-> R, name |-> "e", swap |-> <<R, "swap">>, denied |-> {12}]
\* the caller may empty a but not remove it from the root; b/f2 is pinned (sticky directory, foreign owner)
RF == [nodes |-> NodesRm, dir |-> R, name |-> "a", swap |-> <<R, "swap">>, denied |-> {R}]
RG == [nodes |-> NodesRm, dir |-> 5, name |-> "b", swap |-> <<R, "swap2">>, pinned |-> {9}]
RH == [nodes |-> NodesRm, dir |-> 5, name |-> "l_out", swap |-> <<R, "swap">>, denied |-> {5}]
====
