SPECIFICATION Spec
CONSTANTS
  Procs = {"p1"}
  Scenario <- S1
  MaxIno = 20
  KMaxLinks = 40
  TolerateEEXIST = TRUE
  MaxAttack = 1
INVARIANTS TypeOK OnlyNewDirs MutationsInside
CHECK_DEADLOCK FALSE
