SPECIFICATION TraceSpec
CONSTANTS
  Procs = {"p1", "p2"}
  Scenario <- const_NoScn
  MaxIno = 60
  IgnoreENOENT = TRUE
  IgnoreENOTDIROnOpen = FALSE
  NoFollowOnOpen = TRUE
  MaxAttack = 0
  AnyOrder = TRUE
CONSTRAINT Progress
INVARIANTS RemovalsInside
POSTCONDITION Accepted
CHECK_DEADLOCK FALSE
