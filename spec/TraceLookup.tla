----------------------------- MODULE TraceLookup -----------------------------
(***************************************************************************)
(* Action-level conformance of the real emulated resolver with Lookup.tla. *)
(* The relevant system calls of a real Root::resolve / resolve_nofollow on *)
(* the emulated backend (recorded by the ptrace supervisor, possibly with  *)
(* attacker mutations placed between them) must be a behaviour of the      *)
(* specification: every recorded call has to be the call the step machine  *)
(* makes next, with the same directory inode, component, link body and     *)
(* d_path string, and the recorded result has to be the model's result.    *)
(* Model steps without a system call (E_Start, E_Classify, E_Done) are     *)
(* silent; the two fstat calls of may_follow_link have no model            *)
(* counterpart and are consumed as stuttering.                             *)
(*                                                                         *)
(* A rejected trace means the implementation's call sequence differs from  *)
(* the specification ("model drift"): evidence, not an alarm (section 5).  *)
(***************************************************************************)
EXTENDS Lookup, IOUtils

Rec == ndJsonDeserialize(IOEnv.TRACE)
Ids == 0..255
ToSetL(s) == {s[i] : i \in DOMAIN s}

VARIABLES l, acc
tvars == <<vars, l, acc>>

FsOf(e) ==
    [dents |-> {<<d[1], d[2], d[3]>> : d \in ToSetL(e.dents)},
     kind  |-> [i \in Ids |-> IF \E x \in ToSetL(e.inodes) : x[1] = i THEN (CHOOSE x \in ToSetL(e.inodes) : x[1] = i)[2] ELSE "free"],
     body  |-> [i \in Ids |-> IF \E x \in ToSetL(e.inodes) : x[1] = i THEN (CHOOSE x \in ToSetL(e.inodes) : x[1] = i)[3] ELSE <<>>],
     nox   |-> ToSetL(e.denied)]        \* directories the recorded caller may not search

TraceInit ==
    /\ l = 1 /\ acc = <<>>
    /\ fs = [dents |-> {}, kind |-> [i \in Ids |-> "free"], body |-> [i \in Ids |-> <<>>]]
    /\ tree = 0 /\ path = <<>> /\ op = [op |-> "resolve", nofollow |-> FALSE, nosym |-> FALSE, acc |-> "PATH", odir |-> FALSE]
    /\ backend = "emulated" /\ pc = "idle" /\ cur = R /\ exp = <<>> /\ rem = <<>> /\ ntrav = 0 /\ nxt = 0
    /\ part = "" /\ rootPath = <<>> /\ retries = 0 /\ res = NoRes /\ everIn = {} /\ natk = 0 /\ nsteps = 0

E == Rec[l]
Consume == l' = l + 1
Keep == UNCHANGED <<tree, natk, nsteps, acc>>

\* tree mutations of the attacker (same replay as TraceFS)
ApplyAtt(f, e) ==
    CASE e.nr = "mkdirat"   -> Mkdirat(f, e.d1, e.n1, e.rid).fs
      [] e.nr = "mknodat"   -> Mknodat(f, e.d1, e.n1, e.rid, e.kind).fs
      [] e.nr = "symlinkat" -> Symlinkat(f, e.d1, e.n1, e.rid, e.body).fs
      [] e.nr = "unlinkat"  -> (IF e.flag = "REMOVEDIR" THEN Rmdirat(f, e.d1, e.n1) ELSE Unlinkat(f, e.d1, e.n1)).fs
      [] e.nr = "renameat2" -> Renameat(f, e.d1, e.n1, e.d2, e.n2, e.flag).fs
      [] OTHER -> f

T_Init ==
    /\ l <= Len(Rec) /\ E.ev = "init" /\ Consume
    /\ fs' = FsOf(E) /\ pc' = "idle" /\ everIn' = InRootSet(FsOf(E))
    /\ UNCHANGED <<path, op, cur, exp, rem, ntrav, nxt, part, rootPath, retries, res, backend>> /\ Keep
T_Begin ==
    /\ l <= Len(Rec) /\ E.ev = "begin" /\ pc = "idle" /\ Consume
    /\ path' = E.body /\ op' = [op |-> E.op, nofollow |-> E.flag = "nofollow", nosym |-> E.n2 = "nosym", acc |-> E.kind, odir |-> E.inj]
    /\ pc' = "start" /\ cur' = R /\ exp' = <<>> /\ rem' = <<>> /\ ntrav' = 0 /\ nxt' = 0 /\ part' = "" /\ rootPath' = <<>> /\ res' = NoRes
    /\ backend' = (IF E.d2 = 1 THEN "kernel" ELSE "emulated") /\ retries' = 0
    /\ UNCHANGED <<fs, everIn>> /\ Keep
T_Att ==
    /\ l <= Len(Rec) /\ E.ev = "att" /\ Consume
    /\ fs' = IF E.ret = 0 THEN ApplyAtt(fs, E) ELSE fs
    /\ everIn' = everIn \cup InRootSet(fs')
    /\ UNCHANGED <<path, op, pc, cur, exp, rem, ntrav, nxt, part, rootPath, retries, res, backend>> /\ Keep
\* silent model steps
\* (the classification of trailing slashes is not silent: it is the fstat of what has been reached)
Silent ==
    /\ (E_Start \/ E_ClassifyStep \/ E_Budget \/ E_Done)
    /\ UNCHANGED <<fs, tree, path, op, backend, natk, nsteps, everIn, l, acc>>
T_Trail ==
    /\ l <= Len(Rec) /\ E.ev = "sys" /\ E.nr = "fstat" /\ pc = "loop" /\ E.d1 = cur /\ Consume
    /\ E_ClassifyTrail
    /\ UNCHANGED <<fs, path, op, everIn, backend>> /\ Keep
\* kernel backend: one openat2 per attempt with the caller's path; EAGAIN (a racing rename, or injected) is
\* retried, the KRetry-th EAGAIN in a row ends the call with a safety violation
T_KOpen ==
    /\ l <= Len(Rec) /\ E.ev = "sys" /\ E.nr = "openat2" /\ pc = "start" /\ backend = "kernel" /\ Consume
    /\ E.body = path
    /\ IF E.flag = "EAGAIN"
       THEN /\ retries' = retries + 1
            /\ IF retries + 1 >= KRetry THEN Finish(Safety) ELSE UNCHANGED <<pc, res>>
       ELSE /\ LET r == IF op.op = "open" THEN KAnswer(fs) ELSE KResolve(fs, R, path, KFlags, KMaxLinks) IN
                 IF E.ret >= 0 THEN r.ok /\ r.ino = E.rid ELSE ~r.ok /\ r.err = E.flag
            /\ Finish(KAnswer(fs)) /\ UNCHANGED retries
    /\ cur' = (IF E.ret >= 0 THEN E.rid ELSE cur)
    /\ UNCHANGED <<fs, path, op, exp, rem, ntrav, nxt, part, rootPath, everIn, backend>> /\ Keep
T_Open ==
    /\ l <= Len(Rec) /\ E.ev = "sys" /\ E.nr = "openat" /\ pc = "open" /\ Consume
    /\ E.d1 = cur /\ E.n1 = part
    /\ E_OpenNext
    /\ IF E.ret < 0 THEN pc' = "done" ELSE nxt' = E.rid
    /\ UNCHANGED <<fs, path, op, everIn, backend>> /\ Keep
T_Stat ==
    /\ l <= Len(Rec) /\ E.ev = "sys" /\ E.nr = "fstat" /\ pc = "stat" /\ E.d1 = nxt /\ Consume
    /\ E_Stat
    /\ UNCHANGED <<fs, path, op, everIn, backend>> /\ Keep
\* may_follow_link(dir, link): fstat of the directory and of the link (trailing links only)
T_MayFollow ==
    /\ l <= Len(Rec) /\ E.ev = "sys" /\ E.nr = "fstat" /\ pc = "mayfollow" /\ E.d1 \in {cur, nxt} /\ rem = <<>> /\ Consume
    /\ UNCHANGED <<fs, path, op, pc, cur, exp, rem, ntrav, nxt, part, rootPath, retries, res, everIn, backend>> /\ Keep
T_Readlink ==
    /\ l <= Len(Rec) /\ E.ev = "sys" /\ E.nr = "readlink" /\ pc = "readlink" /\ E.d1 = nxt /\ E.body = fs.body[nxt] /\ Consume
    /\ E_Readlink
    /\ UNCHANGED <<fs, path, op, everIn, backend>> /\ Keep
T_DPath ==
    /\ l <= Len(Rec) /\ E.ev = "sys" /\ E.nr = "dpath" /\ Consume
    /\ \/ pc \in {"dd1", "dd3", "fin1", "fin3"} /\ E.body = DPath(fs, R)
       \/ pc = "dd2" /\ E.body = DPath(fs, nxt)
       \/ pc = "fin2" /\ E.body = DPath(fs, cur)
    /\ (E_DD1 \/ E_DD2 \/ E_DD3 \/ E_Fin1 \/ E_Fin2 \/ E_Fin3)
    /\ UNCHANGED <<fs, path, op, everIn, backend>> /\ Keep
\* after the walk: readlinkat(handle, "") of Root::readlink, and the d_path / fstat reads of the reopen through the
\* fd magic-link of open_subpath -- they address the inode the walk returned (PostResolve is one atomic step of the model)
T_Post ==
    /\ l <= Len(Rec) /\ E.ev = "sys" /\ pc = "done" /\ Consume
    /\ \/ op.op = "readlink" /\ E.nr = "readlink" /\ E.d1 = cur
       \/ op.op = "open" /\ E.nr \in {"dpath", "fstat"}
    /\ UNCHANGED <<fs, path, op, pc, cur, exp, rem, ntrav, nxt, part, rootPath, retries, res, everIn, backend>> /\ Keep
T_End ==
    /\ l <= Len(Rec) /\ E.ev = "end" /\ pc = "done" /\ Consume
    /\ (E.ret = 0) = res.ok
    /\ ((res.ok /\ E.rid # 0) => res.ino = E.rid)
    /\ ((res.ok /\ op.op = "readlink") => res.body = E.body)
    /\ (~res.ok /\ E.flag # "" => res.err = E.flag)
    /\ pc' = "idle"
    /\ UNCHANGED <<fs, path, op, cur, exp, rem, ntrav, nxt, part, rootPath, retries, res, everIn, backend>> /\ Keep
\* events of other calls / snapshots
T_Skip ==
    /\ l <= Len(Rec) /\ E.ev \in {"snap"} /\ pc = "idle" /\ Consume
    /\ UNCHANGED vars /\ UNCHANGED acc

TraceNext == T_Init \/ T_Begin \/ T_Att \/ Silent \/ T_Trail \/ T_KOpen \/ T_Open \/ T_Stat \/ T_MayFollow \/ T_Readlink \/ T_DPath \/ T_Post \/ T_End \/ T_Skip
TraceSpec == TraceInit /\ [][TraceNext]_tvars

Progress == TLCSet(1, IF TLCGet(1) > l THEN TLCGet(1) ELSE l)
ASSUME TLCSet(1, 0)
Accepted ==
    /\ PrintT(<<"CONSUMED", ToJson([lines |-> Len(Rec), diameter |-> TLCGet(1)])>>)
    /\ TRUE
\* C02 on the model state that the real trace drives: the model's result is contained
ContainedOnTrace == (pc = "done" /\ res.ok) => res.ino \in everIn
=============================================================================
