SPECIFICATION Spec
CONSTANTS
  Trees <- const_TreesMk
  Ops <- const_OpsMkRm
  MaxIno = 20
  KMaxLinks = 40
  EmitCases = FALSE
  RefuseDotNames = FALSE
  RefuseOPathCreate = TRUE
INVARIANTS TypeOK OutsideFrame ResultInside MkdirAllPost RemoveAllPost
CHECK_DEADLOCK FALSE
