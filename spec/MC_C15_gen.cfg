SPECIFICATION Spec
CONSTANTS
  Uids = {0, 1001, 1002}
  EmitCases = TRUE
  EmuChecksEveryLink = FALSE
INVARIANTS CaseOut
CHECK_DEADLOCK FALSE
