---------------------------- MODULE MC_RootOps ----------------------------
EXTENDS RootOps

N(id, p, n, k, b) == [id |-> id, p |-> p, n |-> n, k |-> k, b |-> b]
D(id, p, n) == N(id, p, n, "dir", <<>>)
F(id, p, n) == N(id, p, n, "file", <<>>)
L(id, p, n, b) == N(id, p, n, "lnk", b)
H(id, p, n) == N(id, p, n, "hard", <<>>)

P2 == { <<"f">>, <<"a", "g">>, <<"..", "..", "out", "secret">>, <<"dang">>, <<"a", "">>, <<"..">>, <<"a", "new2">>, <<"la", "g">> }

TOps == [name |-> "ops", maxlen |-> 2, paths2 |-> P2, nodes |-> <<
    D(5, R, "a"), D(6, 5, "sub"), F(7, R, "f"), L(8, R, "la", <<"a">>), L(9, R, "dang", <<"nonexist">>),
    F(10, 5, "g"), H(7, 5, "h"), L(11, 5, "esc", <<"..", "..", "out">>), N(12, R, "p", "fifo", <<>>), D(13, R, "e")
  >>]
TOps3 == [TOps EXCEPT !.name = "ops3", !.maxlen = 3]

TSmall == [name |-> "small", maxlen |-> 3, paths2 |-> { <<"f">>, <<"d", "x">>, <<"..">>, <<"l">> }, nodes |-> <<
    D(5, R, "d"), F(6, R, "f"), L(7, R, "l", <<"d">>), L(8, 5, "up", <<"..">>)
  >>]

\* names that merely look like "." and "..": "..." and "...." are ordinary directory names (same-named entries in the
\* root and in ".../" tell the two parents apart)
TDots == [name |-> "dots", maxlen |-> 3, paths2 |-> { <<"x">>, <<"...", "x">>, <<"...", "y">>, <<"y">> }, nodes |-> <<
    D(5, R, "..."), F(6, 5, "x"), F(7, R, "x"), D(8, 5, "...."), D(9, R, "e")
  >>]

const_TreesQuick == <<TOps, TSmall, TDots>>
const_TreesThorough == <<TOps3, TSmall, TDots>>

CreateOps == { [op |-> "create", kind |-> k] : k \in {"file", "dir", "fifo", "lnk", "hard", "chr", "blk"} }
CFOps == { [op |-> "create_file", acc |-> "RDWR", excl |-> x, opath |-> FALSE, odir |-> FALSE] : x \in BOOLEAN }
         \cup { [op |-> "create_file", acc |-> "RDONLY", excl |-> FALSE, opath |-> TRUE, odir |-> d] : d \in BOOLEAN }
         \cup { [op |-> "create_file", acc |-> "RDWR", excl |-> FALSE, opath |-> FALSE, odir |-> TRUE] }
RemoveOps == { [op |-> "remove_file"], [op |-> "remove_dir"] }
RenameOps == { [op |-> "rename", flag |-> f, raw |-> 0] : f \in {"", "NOREPLACE", "EXCHANGE", "WHITEOUT", "WHITEOUT_NOREPLACE"} } \cup { [op |-> "rename", flag |-> "INVALID", raw |-> r] : r \in {3, 128, 7, 6} }
const_Ops == CreateOps \cup CFOps \cup RemoveOps \cup RenameOps
const_OpsMkRm == { [op |-> "mkdir_all"], [op |-> "remove_all"] }
TMk == [name |-> "mk", maxlen |-> 3, paths2 |-> {<<"">>}, nodes |-> <<
    D(5, R, "a"), D(6, 5, "sub"), F(7, R, "f"), L(8, R, "la", <<"a">>), L(9, R, "dang", <<"nonexist">>), L(10, 5, "esc", <<"..", "..", "out">>), L(11, 6, "up", <<"..">>),
    L(12, R, "ld1", <<".", "a">>), L(13, R, "ld2", <<"a", ".", "sub">>), L(14, R, "ld3", <<"a", ".">>) >>]
const_TreesMk == <<TMk>>
\* trees for the partial-lookup equivalence (PartialBackendsAgree): tail-chained, dangling, absolute, slash-terminated and ".." links
TPl == [name |-> "pl", maxlen |-> 3, paths2 |-> {<<"">>}, nodes |-> <<
    D(5, R, "a"), D(6, 5, "b"), F(7, 5, "f"),
    L(8, R, "c1", <<"c2">>), L(9, R, "c2", <<"a">>),                 \* chain ending in a directory
    L(10, R, "d1", <<"d2">>), L(11, R, "d2", <<"nx">>),              \* chain ending nowhere
    L(12, R, "m", <<"a", "nx", "y">>),                               \* missing in the middle of a body
    L(13, R, "abs", <<"", "a", "b">>), L(14, R, "absd", <<"", "nx">>),
    L(15, R, "sl", <<"a", "">>), L(16, R, "dd", <<"a", "b", "..">>), L(17, 5, "up", <<"..", "..">>),
    L(18, R, "mm", <<"c1", "b">>), L(19, R, "lf", <<"a", "f">>) >>]
const_TreesPartial == <<TMk, TPl>>
const_OpsMk == { [op |-> "mkdir_all"] }
=============================================================================
