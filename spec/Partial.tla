------------------------------ MODULE Partial ------------------------------
EXTENDS VFS, SequencesExt

(***************************************************************************)
(* The emulated partial lookup: opath::do_resolve with a SymlinkStack      *)
(* (src/resolvers/opath/imp.rs:187-485, symlink_stack.rs:73-181), on a     *)
(* static tree (check_current cannot fail).  A stack entry remembers the   *)
(* directory and remaining path at the point where a symlink was entered   *)
(* and the components of the link body that are still unwalked; when the   *)
(* walk stops early the result is reported from the context of the FIRST   *)
(* symlink entered (pop_top_symlink), which is what openat2 on each        *)
(* ancestor yields.  "INTERNAL" = BadSymlinkStackError.                    *)
(***************************************************************************)
CONSTANT KeepDotInStack       \* FALSE: the code (do_push drops "" and "."); TRUE: a variant that keeps "." (seeded change C04b)
EmuMax == 128

StkErr(e) == [ok |-> FALSE, err |-> e]
StkOk(st) == [ok |-> TRUE, st |-> st]
\* do_pop (symlink_stack.rs:92-128)
DoPop(st, part) ==
    IF part = "." THEN StkOk(st)
    ELSE IF st = <<>> THEN StkErr("EmptyStack")
    ELSE LET t == st[Len(st)] IN
         IF t.unw = <<>> THEN StkErr("BrokenStackEmpty")
         ELSE IF Head(t.unw) # part THEN StkErr("BrokenStackWrongComponent")
         ELSE StkOk([st EXCEPT ![Len(st)] = [t EXCEPT !.unw = Tail(t.unw)]])
RECURSIVE DropEmptyTail(_)
DropEmptyTail(st) == IF st # <<>> /\ st[Len(st)].unw = <<>> THEN DropEmptyTail(Front(st)) ELSE st
\* pop_part (130-154)
PopPart(st, part) ==
    LET r == DoPop(st, part) IN
    IF ~r.ok THEN (IF r.err = "EmptyStack" THEN StkOk(st) ELSE r)
    ELSE StkOk(DropEmptyTail(r.st))
\* do_push (74-90) and swap_link (156-176)
DoPush(st, dir, remaining, target) ==
    Append(st, [dir |-> dir, rem |-> remaining,
                unw |-> SelectSeq(target, LAMBDA c : c # "" /\ (KeepDotInStack \/ c # "."))])
SwapLink(st, part, dir, remaining, target) ==
    LET r == DoPop(st, part) IN
    IF r.ok THEN StkOk(DoPush(r.st, dir, remaining, target))
    ELSE IF r.err = "EmptyStack" THEN StkOk(DoPush(st, dir, remaining, target))
    ELSE r

\* result of a stopped walk, seen through pop_top_symlink (imp.rs:507-531)
EPartial(st, cur, remaining, e) ==
    IF st # <<>> THEN [ok |-> TRUE, ino |-> st[1].dir, rem |-> st[1].rem, lasterr |-> e]
    ELSE [ok |-> TRUE, ino |-> cur, rem |-> remaining, lasterr |-> e]

RECURSIVE EWalk(_, _, _, _, _, _)
EWalk(f, cur, exp, rem, n, st) ==
    IF rem = <<>> THEN [ok |-> TRUE, ino |-> cur, rem |-> <<>>, lasterr |-> ""]
    ELSE
    LET p0 == Head(rem)  rest == Tail(rem) IN
    IF p0 = ".." /\ exp = <<>> THEN
        \* ".." at the root: dropped from the stack, the walk restarts at the root
        LET r == PopPart(st, "..") IN
        IF ~r.ok THEN [ok |-> FALSE, err |-> "INTERNAL"] ELSE EWalk(f, R, <<>>, rest, n, r.st)
    ELSE
    LET part == IF p0 = "" THEN "." ELSE p0
        exp1 == IF p0 \in {"", "."} THEN exp ELSE IF p0 = ".." THEN Front(exp) ELSE Append(exp, p0)
        o    == OpenatNoFollow(f, cur, part) IN
    IF ~o.ok THEN EPartial(st, cur, rem, o.err)
    ELSE IF ~IsLnk(f, o.ino) THEN
        LET r == PopPart(st, part) IN
        IF ~r.ok THEN [ok |-> FALSE, err |-> "INTERNAL"] ELSE EWalk(f, o.ino, exp1, rest, n, r.st)
    ELSE IF n + 1 >= EmuMax THEN EPartial(st, cur, rem, "ELOOP")
    ELSE
        LET target == f.body[o.ino]
            r == SwapLink(st, part, cur, rem, target)
            abs == Len(target) > 1 /\ target[1] = "" IN
        IF ~r.ok THEN [ok |-> FALSE, err |-> "INTERNAL"]
        ELSE EWalk(f, IF abs THEN R ELSE cur, IF abs THEN <<>> ELSE Front(exp1), target \o rest, n + 1, r.st)

PartialE(f, raw) ==
    IF raw = <<"">> THEN [ok |-> TRUE, ino |-> R, rem |-> <<>>, lasterr |-> "ENOENT"]
    ELSE EWalk(f, R, <<>>, raw, 0, <<>>)

=============================================================================
