SPECIFICATION Spec
CONSTANTS
  MaxDepth = 6
  RetryOnce = TRUE
  RememberENOENT = FALSE
  UnmaskedViaOpenTree = TRUE
INVARIANTS HandlesBounded MissingIsENOENT ExistingIsFound VisibleToPrivilegedIsFound
CHECK_DEADLOCK FALSE
