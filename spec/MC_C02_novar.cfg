SPECIFICATION Spec
CONSTANTS
  Trees <- const_TreesRace
  Ops <- const_OpsResolve
  Backends = {"emulated"}
  MaxIno = 10
  KMaxLinks = 4
  EmuMaxLinks = 7
  KRetry = 2
  MaxAttack = 1
  AtkNames <- const_AtkNames
  AtkBodies <- const_AtkBodies
  ChkAfterDotDot = FALSE
  ChkFinal = FALSE
  ClampDotDot = TRUE
  RestartAbsAtRoot = TRUE
  NoFollowOnOpen = TRUE
  EmptyPathIsENOENT = TRUE
  EmitCases = FALSE
INVARIANTS TypeOK Contained
CHECK_DEADLOCK FALSE
