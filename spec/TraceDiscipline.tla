-------------------------- MODULE TraceDiscipline --------------------------
(***************************************************************************)
(* Descriptor-provenance / call-shape automaton over the *raw* system      *)
(* calls a worker makes while it is inside a libpathrs call, as recorded   *)
(* by the ptrace supervisor (so calls that bypass src/syscalls.rs are      *)
(* judged like any other).                                                 *)
(*                                                                         *)
(* C05: every call against a directory of the root's tree names a single   *)
(*      component relative to a directory descriptor and forbids following *)
(*      it; the only multi-component lookups are openat2 calls with the    *)
(*      fixed RESOLVE_* masks; the only following open is a single name    *)
(*      inside a verified procfs directory, preceded by the no-follow      *)
(*      statx of that name; every descriptor is opened close-on-exec and   *)
(*      cannot become a controlling terminal.                              *)
(* C11: the ledger of descriptors opened by a call and not closed again is *)
(*      at most the returned descriptor (plus the process-lifetime procfs  *)
(*      root of the lazily initialised global handle, once per process);   *)
(*      lent descriptors are never closed or replaced; the /proc/self/fd   *)
(*      listing around the call says the same.                             *)
(***************************************************************************)
EXTENDS Naturals, Sequences, FiniteSets, TLC, Json, IOUtils, SequencesExt, Bitwise

Rec == ndJsonDeserialize(IOEnv.TRACE)

O_CREAT == 64        O_NOCTTY == 256       O_DIRECTORY == 65536   O_NOFOLLOW == 131072
O_CLOEXEC == 524288  O_PATH == 2097152
AT_SYMLINK_NOFOLLOW == 256   AT_SYMLINK_FOLLOW == 1024   AT_EMPTY_PATH == 4096
RESOLVE_NO_XDEV == 1  RESOLVE_NO_MAGICLINKS == 2  RESOLVE_NO_SYMLINKS == 4  RESOLVE_BENEATH == 8  RESOLVE_IN_ROOT == 16
F_DUPFD == 0  F_DUPFD_CLOEXEC == 1030

Has(f, b) == f >= 0 /\ (f & b) = b
SingleComp(p) == Len(p) > 0 /\ \A i \in 1..Len(p) : SubSeq(p, i, i) # "/"
IsAbs(p) == Len(p) > 0 /\ SubSeq(p, 1, 1) = "/"
StartsWith(p, q) == Len(p) >= Len(q) /\ SubSeq(p, 1, Len(q)) = q

VARIABLES l, ledger, lent, verified, lazy, bad, inCall, nsys

vars == <<l, ledger, lent, verified, lazy, bad, inCall, nsys>>

Init ==
    /\ l = 1 /\ ledger = {} /\ lent = {} /\ verified = {} /\ lazy = {} /\ bad = <<>> /\ inCall = FALSE /\ nsys = 0

V(prop, what, e) == [prop |-> prop, what |-> what, case |-> e.case, line |-> l, nr |-> e.nr, path |-> e.path, flags |-> e.flags]

NoCtty(fl) == Has(fl, O_NOCTTY) \/ Has(fl, O_PATH) \/ Has(fl, O_DIRECTORY)

\* ---- shapes allowed against a directory of the root's tree -----------------------------------
TreeShape(e) ==
    CASE e.nr = "openat" ->
            IF ~SingleComp(e.path) THEN "tree openat: not a single component"
            ELSE IF ~Has(e.flags, O_NOFOLLOW) THEN "tree openat without O_NOFOLLOW"
            ELSE ""
      [] e.nr = "openat2" ->
            IF ~Has(e.resolve, RESOLVE_IN_ROOT + RESOLVE_NO_MAGICLINKS) THEN "tree openat2 without RESOLVE_IN_ROOT|RESOLVE_NO_MAGICLINKS"
            ELSE ""
      [] e.nr \in {"newfstatat", "statx"} ->
            IF e.path = "" THEN (IF Has(e.flags, AT_EMPTY_PATH) THEN "" ELSE "stat of empty path without AT_EMPTY_PATH")
            ELSE IF ~SingleComp(e.path) THEN "tree stat: not a single component"
            ELSE IF ~Has(e.flags, AT_SYMLINK_NOFOLLOW) THEN "tree stat follows symlinks"
            ELSE ""
      [] e.nr = "readlinkat" -> IF e.path = "" \/ SingleComp(e.path) THEN "" ELSE "tree readlinkat: not a single component"
      [] e.nr \in {"mkdirat", "mknodat", "unlinkat", "symlinkat", "faccessat", "faccessat2", "fchmodat", "fchownat", "utimensat", "fchmodat2"} ->
            IF SingleComp(e.path) THEN "" ELSE "tree mutation: not a single component"
      [] e.nr \in {"renameat", "renameat2"} ->
            IF ~SingleComp(e.path) \/ ~SingleComp(e.path2) THEN "tree rename: not single components"
            ELSE IF e.d2class # "tree" THEN "tree rename: other side is not a tree directory descriptor"
            ELSE ""
      [] e.nr = "linkat" ->
            IF ~SingleComp(e.path) \/ ~SingleComp(e.path2) THEN "tree linkat: not single components"
            ELSE IF Has(e.flags, AT_SYMLINK_FOLLOW) THEN "tree linkat with AT_SYMLINK_FOLLOW"
            ELSE IF e.d2class # "tree" THEN "tree linkat: other side is not a tree directory descriptor"
            ELSE ""
      [] e.nr = "open_tree" -> "open_tree against the tree"
      [] OTHER -> ""

\* ---- shapes allowed against procfs ------------------------------------------------------------
ProcShape(e) ==
    CASE e.nr = "openat2" ->
            IF ~Has(e.resolve, RESOLVE_BENEATH + RESOLVE_NO_XDEV + RESOLVE_NO_MAGICLINKS) THEN "procfs openat2 without BENEATH|NO_XDEV|NO_MAGICLINKS"
            ELSE ""
      [] e.nr = "openat" ->
            IF ~SingleComp(e.path) THEN "procfs openat: not a single component"
            ELSE IF ~Has(e.flags, O_NOFOLLOW) /\ <<e.dfd, e.path>> \notin verified
                 THEN "procfs following open without the preceding no-follow statx of that name"
            ELSE IF ~Has(e.flags, O_NOFOLLOW) /\ e.reqnf
                 THEN "procfs link followed although the caller passed O_NOFOLLOW"
            ELSE ""
      [] e.nr \in {"newfstatat", "statx"} ->
            IF e.path = "" THEN (IF Has(e.flags, AT_EMPTY_PATH) THEN "" ELSE "stat of empty path without AT_EMPTY_PATH")
            ELSE IF ~Has(e.flags, AT_SYMLINK_NOFOLLOW) THEN "procfs stat follows symlinks"
            ELSE ""
      [] e.nr = "readlinkat" -> IF e.path = "" THEN "" ELSE "procfs readlinkat by name"
      [] e.nr \in {"faccessat", "faccessat2"} -> IF SingleComp(e.path) THEN "" ELSE "procfs access: not a single component"
      [] e.nr \in {"mkdirat", "mknodat", "unlinkat", "symlinkat", "renameat", "renameat2", "linkat"} -> "mutation inside procfs"
      [] OTHER -> ""

\* ---- the current directory / absolute paths: only the documented exceptions ---------------------
CwdShape(e) ==
    IF e.op \in {"open_root"} THEN ""                            \* Root::open(user path)
    ELSE IF e.path = "." /\ e.nr \in {"openat2", "renameat2"} THEN ""   \* capability probes
    \* the /proc constructors name exactly "/proc"; only *diagnostics* (error formatting: readlink / stat of
    \* /proc/thread-self/..., never an open) may name something below it by absolute path
    ELSE IF e.path = "/proc" /\ e.nr \in {"openat", "open_tree"} THEN ""
    ELSE IF StartsWith(e.path, "/proc/") /\ e.nr \in {"readlink", "newfstatat", "statx", "readlinkat", "stat", "lstat"} THEN ""
    ELSE IF e.nr \in {"openat", "openat2", "open", "newfstatat", "statx", "stat", "lstat", "readlink", "readlinkat", "mkdirat", "mkdir", "mknodat",
                      "unlinkat", "unlink", "rmdir", "renameat", "renameat2", "rename", "linkat", "link", "symlinkat", "symlink",
                      "faccessat", "faccessat2", "access", "open_tree", "chdir", "creat", "mknod", "truncate", "chmod", "chown", "lchown", "statfs"}
         THEN "path resolved relative to the current directory / as an absolute path"
    ELSE ""

Shape(e) ==
    IF e.dclass = "tree" THEN
        IF IsAbs(e.path) /\ e.nr # "openat2" THEN "absolute path handed to a tree-relative call" ELSE TreeShape(e)
    ELSE IF e.dclass = "proc" THEN
        IF IsAbs(e.path) /\ e.nr # "openat2" THEN "absolute path handed to a procfs-relative call" ELSE ProcShape(e)
    ELSE IF e.dclass = "cwd" THEN CwdShape(e)
    ELSE IF e.intree THEN "call reaches into the tree through a descriptor that is neither of the tree nor procfs"
    ELSE ""

\* ---- descriptors must be born close-on-exec and unable to become a controlling tty ------------
Birth(e) ==
    CASE e.nr = "openat" -> IF ~Has(e.flags, O_CLOEXEC) THEN "openat without O_CLOEXEC"
                            ELSE IF ~NoCtty(e.flags) THEN "openat without O_NOCTTY" ELSE ""
      [] e.nr = "openat2" -> IF ~Has(e.flags, O_CLOEXEC) THEN "openat2 without O_CLOEXEC"
                             ELSE IF ~NoCtty(e.flags) /\ e.dclass # "cwd" THEN "openat2 without O_NOCTTY" ELSE ""
      [] e.nr = "open" -> "open(2) by path"
      [] e.nr = "fcntl" -> IF e.cmd = F_DUPFD THEN "fcntl(F_DUPFD) without CLOEXEC" ELSE ""
      [] e.nr \in {"dup", "dup2"} -> "dup without close-on-exec"
      [] e.nr = "dup3" -> IF Has(e.flags, O_CLOEXEC) THEN "" ELSE "dup3 without O_CLOEXEC"
      [] e.nr \in {"fsopen", "fsmount"} -> IF Has(e.flags, 1) THEN "" ELSE "fsopen/fsmount without CLOEXEC"
      [] e.nr = "open_tree" -> IF Has(e.flags, O_CLOEXEC) THEN "" ELSE "open_tree without OPEN_TREE_CLOEXEC"
      [] OTHER -> ""

CreatesFd(e) == e.ret >= 0 /\ (e.nr \in {"openat", "openat2", "open", "fsopen", "fsmount", "open_tree", "dup", "dup2", "dup3"}
                               \/ (e.nr = "fcntl" /\ e.cmd \in {F_DUPFD, F_DUPFD_CLOEXEC}))
NewFd(e) == IF e.nr \in {"dup2", "dup3"} THEN e.newfd ELSE e.ret

AddIf(s, c, x) == IF c THEN Append(s, x) ELSE s

Step ==
    /\ l <= Len(Rec)
    /\ l' = l + 1
    /\ LET e == Rec[l] IN
       CASE e.ev = "begin" ->
              /\ ledger' = {} /\ verified' = {} /\ inCall' = TRUE /\ lent' = ToSet(e.lent) /\ nsys' = 0
              /\ UNCHANGED <<lazy, bad>>
         [] e.ev = "sys" ->
              LET sh == Shape(e)
                  bi == Birth(e)
                  closesLent == e.nr = "close" /\ e.ret = 0 /\ e.fd \in lent
                  overLent == e.nr \in {"dup2", "dup3"} /\ e.ret >= 0 /\ e.newfd \in lent
                  b1 == AddIf(bad, sh # "", V("C05", sh, e))
                  b2 == AddIf(b1, bi # "", V("C05", bi, e))
                  b3 == AddIf(b2, closesLent \/ overLent, V("C11", "library closed or replaced a descriptor lent by the caller", e))
              IN
              /\ bad' = b3
              /\ nsys' = nsys + 1
              /\ ledger' = IF CreatesFd(e) THEN ledger \cup {NewFd(e)}
                           ELSE IF e.nr = "close" /\ e.ret = 0 THEN ledger \ {e.fd} ELSE ledger
              /\ verified' = IF e.nr = "statx" /\ e.dclass = "proc" /\ e.ret = 0 /\ Has(e.flags, AT_SYMLINK_NOFOLLOW) /\ SingleComp(e.path)
                             THEN verified \cup {<<e.dfd, e.path>>}
                             ELSE IF e.nr = "close" /\ e.ret = 0 THEN {p \in verified : p[1] # e.fd}
                             ELSE verified
              /\ UNCHANGED <<lent, lazy, inCall>>
         [] e.ev = "end" ->
              \* C11: what is left open is the returned descriptor, or the process-lifetime procfs
              \* root of the lazily created global handle (once per worker process)
              LET ret     == IF e.retfd >= 0 THEN {e.retfd} ELSE {}
                  globals == {x[1] : x \in {y \in ToSet(e.opened) : y[3] /\ y[2]}}
                  left    == ledger \ ret
                  newlazy == left \cap globals
                  lazyOk  == Cardinality(newlazy) <= 1 /\ (newlazy # {} => e.wpid \notin lazy)
                  leak1   == (left \ globals) # {} \/ ~lazyOk
                  listed  == {x[1] : x \in ToSet(e.opened)}
                  leak2   == (listed \ ret) \ globals # {} \/ (Cardinality((listed \ ret) \cap globals) > 1)
                  notclo  == \E x \in ToSet(e.opened) : x[1] \in ret /\ ~x[2]
                  b1 == AddIf(bad, e.traced /\ leak1, [prop |-> "C11", what |-> "descriptor opened during the call is still open afterwards (syscall ledger)", case |-> e.case, line |-> l, nr |-> e.op, path |-> ToString(left), flags |-> 0])
                  b2 == AddIf(b1, leak2, [prop |-> "C11", what |-> "new descriptor in /proc/self/fd after the call besides the returned one", case |-> e.case, line |-> l, nr |-> e.op, path |-> ToString(listed \ ret), flags |-> 0])
                  b3 == AddIf(b2, e.closed # <<>> \/ e.changed # <<>>, [prop |-> "C11", what |-> "a descriptor that was open before the call is closed or refers to another object afterwards", case |-> e.case, line |-> l, nr |-> e.op, path |-> ToString(<<e.closed, e.changed>>), flags |-> 0])
                  b4 == AddIf(b3, notclo, [prop |-> "C11", what |-> "returned descriptor is not close-on-exec", case |-> e.case, line |-> l, nr |-> e.op, path |-> "", flags |-> 0])
              IN
              /\ bad' = b4
              \* (a procfs root that is the call's own returned object -- ProcfsHandle::new() -- is not the global handle)
              /\ lazy' = IF ((listed \ ret) \cap globals) # {} THEN lazy \cup {e.wpid} ELSE lazy
              /\ inCall' = FALSE /\ ledger' = {} /\ verified' = {}
              /\ UNCHANGED <<lent, nsys>>
         [] OTHER -> UNCHANGED <<ledger, lent, verified, lazy, bad, inCall, nsys>>

Spec == Init /\ [][Step]_vars

Accepted ==
    LET n == TLCGet("stats").diameter IN
    /\ PrintT(<<"CONSUMED", ToJson([lines |-> Len(Rec), diameter |-> n])>>)
    /\ n - 1 = Len(Rec)

Report == (l = Len(Rec) + 1) => PrintT(<<"REPORT", ToJson([bad |-> bad, kmm |-> <<>>])>>)
=============================================================================
