SPECIFICATION Spec
CONSTANTS
  Trees <- const_TreesPartial
  Ops <- const_OpsMkRm
  MaxIno = 24
  KMaxLinks = 40
  EmitCases = TRUE
  RefuseDotNames = FALSE
  RefuseOPathCreate = TRUE
  KeepDotInStack = FALSE
INVARIANTS TypeOK CaseOut
CHECK_DEADLOCK FALSE
