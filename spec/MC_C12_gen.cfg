SPECIFICATION Spec
CONSTANTS
  Trees <- const_TreesMk
  Ops <- const_OpsMkRm
  MaxIno = 20
  KMaxLinks = 40
  EmitCases = TRUE
  RefuseDotNames = FALSE
  RefuseOPathCreate = TRUE
INVARIANTS TypeOK CaseOut
CHECK_DEADLOCK FALSE
