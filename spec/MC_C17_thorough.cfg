SPECIFICATION Spec
CONSTANTS
  MaxLen = 40
  Slack = 5
INVARIANT Inv
CHECK_DEADLOCK FALSE
