------------------------------- MODULE Remove2 -------------------------------
(***************************************************************************)
(* Two (or more) concurrent remove_all calls (src/utils/dir.rs:72-165) on  *)
(* one directory entry, interleaved at system-call granularity.  Every     *)
(* process has a stack of frames (the recursion); one action per syscall:  *)
(*   unlink / rmdir        the fast path remove_inode (and the final one)  *)
(*   opendir               openat(dir, name, O_DIRECTORY|O_NOFOLLOW)       *)
(*   scan                  one getdents batch of the opened directory      *)
(*   iter                  recursion into the next listed child            *)
(* ENOENT is tolerated everywhere ("somebody else removed it").            *)
(* Permissions: `denied` (directories in which the caller may not remove   *)
(* entries: EACCES) and `pinned` (entries of sticky directories that the    *)
(* caller may not remove: EPERM); may_delete() answers before the type of  *)
(* the victim is looked at.  "When remove_all succeeds the named entry no  *)
(* longer exists" (OkMeansGone) must hold there too: an ENOTDIR from the    *)
(* opendir step means "a non-directory that could not be unlinked".        *)
(* C13 (concurrency clause): all callers report success, the entry is      *)
(* gone, nothing outside the named subtree disappeared, nothing was added, *)
(* and symlinks are unlinked, never followed.                              *)
(***************************************************************************)
EXTENDS VFS, SequencesExt, FiniteSetsExt

CONSTANTS Procs, Scenario, MaxIno,
          IgnoreENOENT,      \* TRUE = the code; FALSE = mechanism removed
          NoFollowOnOpen,    \* TRUE = the code; FALSE = opendir follows a symlink
          MaxAttack,         \* 0 or 1: an attacker may once exchange the victim entry with the staged entry Scenario.swap
          IgnoreENOTDIROnOpen,  \* FALSE = the code; TRUE: an ENOTDIR answer of the opendir step counts as "already gone" (seeded change C13e)
          AnyOrder           \* TRUE: getdents may list a directory in any order (POSIX); FALSE: by inode number (smaller graph for schedule generation)

VARIABLES fs, fs0, stack, res, who, natk,
          denied, pinned     \* permissions of the caller(s): constant during a case
vars == <<fs, fs0, stack, res, who, natk, denied, pinned>>

Ino == 1..MaxIno
BaseDents == {<<P, "root", R>>, <<P, "out", O>>, <<O, "secret", SECRET>>}
MkFs(nodes) ==
    [dents |-> BaseDents \cup {<<nodes[i].p, nodes[i].n, nodes[i].id>> : i \in DOMAIN nodes},
     kind  |-> [i \in Ino |-> IF i \in {P, R, O} THEN "dir" ELSE IF i = SECRET THEN "file"
                              ELSE IF \E j \in DOMAIN nodes : nodes[j].id = i THEN nodes[CHOOSE j \in DOMAIN nodes : nodes[j].id = i].k ELSE "free"],
     body  |-> [i \in Ino |-> IF \E j \in DOMAIN nodes : nodes[j].id = i /\ nodes[j].k = "lnk"
                              THEN nodes[CHOOSE j \in DOMAIN nodes : nodes[j].id = i].b ELSE <<>>]]

Frame(d, n) == [d |-> d, n |-> n, pc |-> "unlink", sub |-> 0, todo |-> <<>>, e1 |-> "", final |-> FALSE]

Init ==
    /\ fs0 = MkFs(Scenario.nodes) /\ fs = fs0
    /\ stack = [p \in Procs |-> << Frame(Scenario.dir, Scenario.name) >>]
    /\ res = [p \in Procs |-> "running"] /\ who = "" /\ natk = 0
    /\ denied = (IF "denied" \in DOMAIN Scenario THEN Scenario.denied ELSE {})
    /\ pinned = (IF "pinned" \in DOMAIN Scenario THEN Scenario.pinned ELSE {})

Top(p) == stack[p][Len(stack[p])]
SetTop(p, f) == [stack EXCEPT ![p] = [@ EXCEPT ![Len(@)] = f]]

\* the frame on top returns `r` ("ok" or an errno) to its caller (or ends the call)
Return(p, r) ==
    LET ok == r = "ok" \/ (r = "ENOENT" /\ IgnoreENOENT) IN
    IF Len(stack[p]) = 1 THEN
        /\ res' = [res EXCEPT ![p] = IF ok THEN "ok" ELSE r] /\ stack' = [stack EXCEPT ![p] = <<>>]
    ELSE IF ok THEN
        \* the caller continues its iteration
        /\ stack' = [stack EXCEPT ![p] = SubSeq(@, 1, Len(@) - 1)] /\ UNCHANGED res
    ELSE \* error propagates: the whole call fails (`?`)
        /\ res' = [res EXCEPT ![p] = r] /\ stack' = [stack EXCEPT ![p] = <<>>]

\* may_delete(): the permission answers come before the type checks (EISDIR / ENOTDIR / ENOTEMPTY), after the lookup (ENOENT)
MayNot(f, d, n) == IF ~IsDir(f, d) \/ n \in {".", ".."} \/ ~HasChild(f, d, n) THEN "" ELSE IF d \in denied THEN "EACCES" ELSE IF Child(f, d, n) \in pinned THEN "EPERM" ELSE ""
UnlinkP(f, d, n) == IF MayNot(f, d, n) # "" THEN [res |-> Err(MayNot(f, d, n)), fs |-> f] ELSE Unlinkat(f, d, n)
RmdirP(f, d, n)  == IF MayNot(f, d, n) # "" THEN [res |-> Err(MayNot(f, d, n)), fs |-> f] ELSE Rmdirat(f, d, n)

\* children of a directory as a sequence ordered by inode number (one getdents batch)
RECURSIVE SortedSeq(_)
SortedSeq(S) == IF S = {} THEN <<>> ELSE LET m == Min(S) IN <<m>> \o SortedSeq(S \ {m})
NameOf(f, d, c) == (CHOOSE e \in f.dents : e[1] = d /\ e[3] = c)[2]
Listing(f, d) == LET ids == {e[3] : e \in Children(f, d)} IN [i \in DOMAIN SortedSeq(ids) |-> NameOf(f, d, SortedSeq(ids)[i])]
Orders(f, d) == IF AnyOrder THEN SetToSeqs({e[2] : e \in Children(f, d)}) ELSE {Listing(f, d)}

Step(p) ==
    /\ stack[p] # <<>>
    /\ LET f == Top(p) IN
       CASE f.pc = "unlink" ->
              LET r == UnlinkP(fs, f.d, f.n) IN
              IF r.res.ok THEN fs' = r.fs /\ Return(p, "ok")
              ELSE fs' = fs /\ stack' = SetTop(p, [f EXCEPT !.pc = "rmdir", !.e1 = r.res.err]) /\ UNCHANGED res
         [] f.pc = "rmdir" ->
              LET r == RmdirP(fs, f.d, f.n)
                  e == IF r.res.ok THEN "ok" ELSE IF r.res.err = "ENOTDIR" THEN f.e1 ELSE r.res.err IN
              IF r.res.ok THEN fs' = r.fs /\ Return(p, "ok")
              ELSE IF f.final THEN fs' = fs /\ Return(p, e)
              ELSE IF e = "ENOENT" /\ IgnoreENOENT THEN fs' = fs /\ Return(p, "ok")
              ELSE fs' = fs /\ stack' = SetTop(p, [f EXCEPT !.pc = "opendir"]) /\ UNCHANGED res
         [] f.pc = "opendir" ->
              LET o == OpenatNoFollow(fs, f.d, f.n) IN
              /\ fs' = fs
              /\ IF ~o.ok THEN Return(p, o.err)
                 ELSE IF IsLnk(fs, o.ino) THEN
                      \* O_DIRECTORY|O_NOFOLLOW on a symlink: do_open() answers ENOTDIR before may_open() could say ELOOP
                      (IF NoFollowOnOpen THEN Return(p, IF IgnoreENOTDIROnOpen THEN "ok" ELSE "ENOTDIR")
                       ELSE \* a following open lands on the link's target (relative to the link's directory, on the host)
                            LET k == KWalk(fs, P, f.d, Norm(fs.body[o.ino]).comps, 0, [follow |-> TRUE, dir |-> FALSE, opath |-> TRUE, nosym |-> FALSE], 40) IN
                            IF k.ok /\ IsDir(fs, k.ino) THEN stack' = SetTop(p, [f EXCEPT !.pc = "scan", !.sub = k.ino]) /\ UNCHANGED res
                            ELSE Return(p, "ENOTDIR"))
                 ELSE IF ~IsDir(fs, o.ino) THEN Return(p, IF IgnoreENOTDIROnOpen THEN "ok" ELSE "ENOTDIR")
                 ELSE stack' = SetTop(p, [f EXCEPT !.pc = "scan", !.sub = o.ino]) /\ UNCHANGED res
         [] f.pc = "scan" ->
              /\ fs' = fs /\ UNCHANGED res
              /\ \E l \in Orders(fs, f.sub) :
                   IF l = <<>> THEN stack' = SetTop(p, [f EXCEPT !.pc = "unlink", !.final = TRUE])
                   ELSE stack' = SetTop(p, [f EXCEPT !.pc = "iter", !.todo = l])
         [] f.pc = "iter" ->
              /\ fs' = fs /\ UNCHANGED res
              /\ IF f.todo = <<>> THEN stack' = SetTop(p, [f EXCEPT !.pc = "scan"])
                 ELSE stack' = [stack EXCEPT ![p] = Append([@ EXCEPT ![Len(@)] = [f EXCEPT !.todo = Tail(f.todo)]], Frame(f.sub, Head(f.todo)))]
    /\ who' = p
    /\ UNCHANGED <<fs0, natk, denied, pinned>>

\* the attacker swaps the victim entry with a staged object (e.g. a symlink pointing outside)
Attack ==
    /\ natk < MaxAttack /\ \E p \in Procs : stack[p] # <<>>
    /\ LET r == Renameat(fs, Scenario.dir, Scenario.name, Scenario.swap[1], Scenario.swap[2], "EXCHANGE") IN
       r.res.ok /\ fs' = r.fs
    /\ natk' = natk + 1 /\ who' = "attacker"
    /\ UNCHANGED <<fs0, stack, res, denied, pinned>>

Next == (\E p \in Procs : Step(p)) \/ Attack
Spec == Init /\ [][Next]_vars

AllDone == \A p \in Procs : stack[p] = <<>>
Target == Child(fs0, Scenario.dir, Scenario.name)
Subtree == {<<Scenario.dir, Scenario.name, Target>>} \cup (IF IsDir(fs0, Target) THEN {d \in fs0.dents : d[1] \in ReachFrom(fs0, {Target})} ELSE {})
AllSucceed == (AllDone /\ natk = 0) => \A p \in Procs : res[p] = "ok"
Gone == (AllDone /\ natk = 0) => ~HasChild(fs, Scenario.dir, Scenario.name)
OnlySubtreeGone == natk = 0 => (fs.dents \subseteq fs0.dents /\ (fs0.dents \ fs.dents) \subseteq Subtree)
\* under attack: whatever disappears was inside the root (the host secret next to the root survives)
OutsideUntouched == \A d \in fs0.dents : d[1] \notin ReachFrom(fs0, {R}) /\ d[3] # R => d \in fs.dents
WholeSubtreeGone == (AllDone /\ natk = 0) => Subtree \cap fs.dents = {}
TypeOK == \A p \in Procs : res[p] \in {"running", "ok", "ENOENT", "ENOTDIR", "ENOTEMPTY", "ELOOP", "EISDIR", "EINVAL", "EACCES", "EPERM"}
\* C13, with or without permission: a caller that reports success leaves no entry of that name behind (no attacker: nobody re-creates it)
OkMeansGone == (AllDone /\ natk = 0 /\ \E p \in Procs : res[p] = "ok") => ~HasChild(fs, Scenario.dir, Scenario.name)
\* ... and a caller without the permission to remove the entry reports an error
DeniedMeansError == (AllDone /\ natk = 0 /\ HasChild(fs, Scenario.dir, Scenario.name)) => \A p \in Procs : res[p] # "ok"
=============================================================================
