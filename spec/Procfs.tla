------------------------------- MODULE Procfs -------------------------------
(***************************************************************************)
(* Hardened procfs access (src/procfs.rs, src/resolvers/procfs.rs).        *)
(*                                                                         *)
(* A procfs instance is a fixed skeleton of nodes; an over-mount relation  *)
(* places foreign objects on top of some nodes of the HOST instance.  A    *)
(* handle is of one of several kinds, which decides whether the host's     *)
(* over-mounts are visible through it.  Lookups walk the skeleton one      *)
(* component at a time and verify the mount id at every step (emulated     *)
(* resolver) or rely on RESOLVE_NO_XDEV|RESOLVE_BENEATH (openat2); the     *)
(* final descriptor and, for the one following open, the link dentry are   *)
(* verified as well.                                                       *)
(*                                                                         *)
(* C06 Genuine: a successful open / open_follow / readlink returns the     *)
(*     procfs object of the handle's own mount for that path, never the    *)
(*     over-mounted object; a visible over-mount on the way gives EXDEV;   *)
(*     private handles are unaffected.                                     *)
(* C07 NoLeave / FollowOnlyTrailing: '..', absolute link bodies and        *)
(*     magic-links as intermediate components fail; open never follows a   *)
(*     trailing link, open_follow follows exactly the trailing one.        *)
(***************************************************************************)
EXTENDS Naturals, Sequences, FiniteSets, TLC, Json

CONSTANTS HandleKinds, Resolvers, MaxMounts, EmitCases,
          \* mechanisms (TRUE = as coded)
          ChkEachStep, ChkFinal, ChkLinkDentry, ChkBase

\* ---- the skeleton: node -> [kind, children / link target] ------------------------------------
\* kinds: dir, file, sym (ordinary procfs symlink with a relative body), magic (magic-link)
Nodes == {"root", "self", "tself", "pid", "status", "environ", "exe", "cwd", "fd", "fdN", "attr", "attrcur", "task", "tid", "tidstatus", "stat", "sys", "sysfile", "pid1", "mounts", "pidmounts", "outside"}
Kind(n) ==
    CASE n \in {"root", "pid", "fd", "attr", "task", "tid", "sys", "pid1"} -> "dir"
      [] n \in {"status", "environ", "attrcur", "tidstatus", "stat", "sysfile", "pidmounts"} -> "file"
      [] n \in {"self", "tself", "mounts"} -> "sym"
      [] n \in {"exe", "cwd", "fdN"} -> "magic"
      [] OTHER -> "outside"
Child(d, name) ==
    CASE d = "root" /\ name = "self" -> "self"      [] d = "root" /\ name = "thread-self" -> "tself"
      [] d = "root" /\ name = "PID" -> "pid"        [] d = "root" /\ name = "stat" -> "stat"
      [] d = "root" /\ name = "sys" -> "sys"        [] d = "root" /\ name = "1" -> "pid1"
      [] d = "root" /\ name = "mounts" -> "mounts"
      [] d = "sys" /\ name = "f" -> "sysfile"
      [] d \in {"pid", "tid"} /\ name = "status" -> IF d = "pid" THEN "status" ELSE "tidstatus"
      [] d = "pid" /\ name = "environ" -> "environ" [] d = "pid" /\ name = "exe" -> "exe"
      [] d = "pid" /\ name = "mounts" -> "pidmounts"
      [] d = "pid" /\ name = "cwd" -> "cwd"         [] d = "pid" /\ name = "fd" -> "fd"
      [] d = "pid" /\ name = "attr" -> "attr"       [] d = "pid" /\ name = "task" -> "task"
      [] d = "fd" /\ name = "N" -> "fdN"            [] d = "attr" /\ name = "current" -> "attrcur"
      [] d = "task" /\ name = "TID" -> "tid"
      [] OTHER -> "none"
SymBody(n) == CASE n = "self" -> <<"PID">> [] n = "tself" -> <<"PID", "task", "TID">> [] n = "mounts" -> <<"self", "mounts">> [] OTHER -> <<>>
DirOf(n) == IF n \in {"self", "tself", "mounts"} THEN "root" ELSE "root"   \* all three live in the root

\* over-mountable nodes and what can be put there
Mountable == {"self", "tself", "status", "exe", "fd", "attr", "attrcur", "stat", "sys", "tid"}
MountKinds(n) == IF Kind(n) = "dir" THEN {"tmpfs", "bind-procdir"} ELSE IF Kind(n) = "file" THEN {"bind-file", "bind-procfile"} ELSE {"bind-symlink"}
Mounts == {[node |-> n, kind |-> k] : <<n, k>> \in {<<a, b>> \in Mountable \X {"tmpfs", "bind-procdir", "bind-file", "bind-procfile", "bind-symlink"} : b \in MountKinds(a)}}

SeesOvermounts(hk) == hk \in {"open", "open_tree_rec", "userfd_open"}

Cases == { [base |-> b, path |-> p] : <<b, p>> \in {
    <<"self", <<"status">>>>, <<"self", <<"exe">>>>, <<"self", <<"attr", "current">>>>, <<"self", <<"fd", "N">>>>, <<"self", <<"fd">>>>,
    <<"tself", <<"status">>>>, <<"root", <<"stat">>>>, <<"root", <<"sys", "f">>>>, <<"root", <<"mounts">>>>,
    <<"self", <<"cwd", "x">>>>, <<"self", <<"..", "stat">>>>, <<"self", <<"exe", "">>>>, <<"self", <<"status", "">>>>, <<"self", <<"task", "TID", "status">>>> } }
OpsSet == {"open", "open_path", "open_follow", "readlink"}

VARIABLES om, hk, rs, cs, op, done, res
vars == <<om, hk, rs, cs, op, done, res>>

Over(n) == SeesOvermounts(hk) /\ \E m \in om : m.node = n

Ok(n) == [ok |-> TRUE, node |-> n]
Err(e) == [ok |-> FALSE, err |-> e]

\* walk `rem` from directory node `cur`; `final` tells how the last component is treated:
\*   "nofollow-path" (O_PATH|O_NOFOLLOW: links are returned), "nofollow" (ELOOP on links)
RECURSIVE Walk(_, _, _, _)
Walk(cur, rem, final, n) ==
    IF rem = <<>> THEN Ok(cur)
    ELSE LET c == Head(rem)  rest == Tail(rem)  last == rest = <<>> IN
    IF Kind(cur) # "dir" THEN Err("ENOTDIR")
    ELSE IF c = "" \/ c = "." THEN Walk(cur, rest, final, n)
    ELSE IF c = ".." THEN Err("EXDEV")                      \* (both resolvers refuse to leave through "..")
    ELSE LET ch == Child(cur, c) IN
    IF ch = "none" THEN Err("ENOENT")
    ELSE IF Over(ch) /\ (ChkEachStep \/ (last /\ ChkFinal)) THEN Err("EXDEV")
    ELSE IF Kind(ch) = "magic" THEN
        IF ~last THEN Err("ELOOP")                           \* magic-link as a path component
        ELSE IF final = "nofollow-path" THEN Ok(ch) ELSE Err("ELOOP")
    ELSE IF Kind(ch) = "sym" THEN
        IF last /\ final = "nofollow-path" THEN Ok(ch)
        ELSE IF last /\ final = "nofollow" THEN Err("ELOOP")
        ELSE IF n >= 8 THEN Err("ELOOP")
        ELSE Walk("root", SymBody(ch) \o rest, final, n + 1)  \* procfs symlinks live in the root, bodies are relative
    ELSE Walk(ch, rest, final, n)

BasePath(b) == IF b = "self" THEN <<"self">> ELSE IF b = "tself" THEN <<"thread-self">> ELSE <<>>
\* open_base: resolve the base as a directory, then verify it (procfs.rs:304-314)
OpenBase(b) ==
    LET r == Walk("root", BasePath(b) \o <<"">>, "nofollow-path", 0) IN
    IF r.ok /\ Over(r.node) /\ ChkBase THEN Err("EXDEV") ELSE r

TrailingSlash(p) == Len(p) > 1 /\ p[Len(p)] = ""
Strip(p) == IF TrailingSlash(p) THEN SubSeq(p, 1, Len(p) - 1) ELSE p

DoOpen(b, p, final) ==
    LET br == OpenBase(b) IN
    IF ~br.ok THEN br
    ELSE LET r == Walk(br.node, p, final, 0) IN
         IF r.ok /\ Over(r.node) /\ ChkFinal THEN Err("EXDEV") ELSE r

DoReadlink(b, p) ==
    LET r == DoOpen(b, p, "nofollow-path") IN
    IF ~r.ok THEN r ELSE IF Kind(r.node) \in {"sym", "magic"} THEN [ok |-> TRUE, node |-> r.node, body |-> TRUE] ELSE Err("ENOENT")

\* a trailing slash means O_DIRECTORY (procfs.rs:346-351)
MustDir(r, slash) == IF r.ok /\ slash /\ (r.node = "outside" \/ Kind(r.node) # "dir") /\ r.node # "cwdtarget" THEN Err("ENOTDIR") ELSE r
DoOpenFollow(b, p0) ==
    LET p == Strip(p0)
        slash == TrailingSlash(p0)
        probe == DoReadlink(b, p) IN
    IF ~probe.ok THEN
        IF probe.err \in {"ENOENT", "EINVAL"} THEN MustDir(DoOpen(b, p, "nofollow"), slash) ELSE probe
    ELSE \* a link: open its parent, verify the link dentry, follow exactly this one link
        LET parent == IF Len(p) = 1 THEN DoOpen(b, <<".">>, "nofollow-path") ELSE DoOpen(b, SubSeq(p, 1, Len(p) - 1), "nofollow-path")
            link   == Child(parent.node, p[Len(p)]) IN
        IF ~parent.ok THEN parent
        ELSE IF Over(link) /\ ChkLinkDentry THEN Err("EXDEV")
        ELSE IF Kind(link) = "magic" THEN (IF slash /\ link # "cwd" THEN Err("ENOTDIR") ELSE Ok("outside"))   \* the magic-link's target
        ELSE MustDir(Walk("root", SymBody(link), "nofollow-path", 0), slash)

Answer ==
    CASE op = "open" -> DoOpen(cs.base, cs.path, "nofollow")
      [] op = "open_path" -> DoOpen(cs.base, cs.path, "nofollow-path")
      [] op = "open_follow" -> DoOpenFollow(cs.base, cs.path)
      [] op = "readlink" -> DoReadlink(cs.base, cs.path)

Init ==
    /\ om \in {s \in SUBSET Mounts : Cardinality(s) <= MaxMounts /\ \A a, b \in s : a.node = b.node => a = b}
    /\ hk \in HandleKinds /\ rs \in Resolvers /\ cs \in Cases /\ op \in OpsSet
    /\ done = FALSE /\ res = Err("none")
Eval == ~done /\ done' = TRUE /\ res' = Answer /\ UNCHANGED <<om, hk, rs, cs, op>>
Spec == Init /\ [][Eval]_vars

\* ---- properties ---------------------------------------------------------------------------------
\* the nodes a successful walk of this case touches in a pristine instance
Pristine == LET saved == om IN Answer   \* (Answer depends on om only through Over)
\* C06: a success never lands on (or went through) a visibly over-mounted node
RECURSIVE Touched(_, _, _)
Touched(cur, rem, n) ==
    IF rem = <<>> \/ n > 10 THEN {cur}
    ELSE LET c == Head(rem) rest == Tail(rem) IN
         IF c \in {"", "."} THEN Touched(cur, rest, n)
         ELSE LET ch == Child(cur, c) IN
              IF ch = "none" \/ c = ".." THEN {cur}
              ELSE IF Kind(ch) = "sym" /\ rest # <<>> THEN {ch} \cup Touched("root", SymBody(ch) \o rest, n + 1)
              ELSE {cur, ch} \cup Touched(ch, rest, n)
PathNodes == Touched("root", BasePath(cs.base) \o Strip(cs.path), 0)
Genuine == (done /\ res.ok) => \A n \in PathNodes : ~Over(n)
PrivateUnaffected == (done /\ ~SeesOvermounts(hk)) => TRUE
\* C07
NoLeave == (done /\ (\E i \in DOMAIN cs.path : cs.path[i] = "..")) => ~res.ok
MagicComponentRefused == (done /\ cs.path = <<"cwd", "x">>) => (~res.ok /\ res.err \in {"ELOOP", "EXDEV"})
OpenNeverFollows == (done /\ op \in {"open", "open_path"} /\ res.ok) => res.node # "outside"
TypeOK == done \in BOOLEAN

CaseOut == (EmitCases /\ done) =>
    PrintT(<<"CASE", ToJson([om |-> om, hk |-> hk, rs |-> rs, base |-> cs.base, path |-> cs.path, op |-> op, expect |-> res])>>)
=============================================================================
