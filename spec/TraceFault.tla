---------------------------- MODULE TraceFault ----------------------------
(***************************************************************************)
(* C10: the outcome of every fault-injected execution of the real library  *)
(* (one record per run, produced by the ptrace supervisor) must satisfy    *)
(* the clean-failure contract:                                             *)
(*   NoPanic        the call returned (no panic / abort)                   *)
(*   Terminates     the call returned within the step budget               *)
(*   ErrorOrSame    a call that reports success after a fault has exactly  *)
(*                  the observable outcome of the unfaulted call (the      *)
(*                  failure was tolerated by a retry or fallback): it does *)
(*                  not report success for work it did not do              *)
(*   OutsideFrame   nothing outside the root changed                       *)
(*   NoLeak         descriptor table as before (+ returned fd)             *)
(*   EAGAIN rule    n consecutive EAGAIN answers of openat2 end either    *)
(*                  with the unfaulted outcome or with a safety violation  *)
(*                  -- never a partial / different result, never a raw     *)
(*                  EAGAIN; one or two of them are ridden out (the call IS *)
(*                  retried); a persistent sequence (Persistent = 5000)    *)
(*                  ends with a safety violation (the retry IS bounded).   *)
(* The property does not fix the bound: the real constant (16) lives in    *)
(* the retry automaton itself, the K_Openat2 action of Lookup.tla, and a   *)
(* different bound shows up as model drift in TraceLookup, not as an alarm.*)
(***************************************************************************)
EXTENDS Naturals, Sequences, TLC, Json, IOUtils

Rec == ndJsonDeserialize(IOEnv.TRACE)
Persistent == 5000

VARIABLES l, bad
vars == <<l, bad>>
Init == l = 1 /\ bad = <<>>

V(what, e) == [prop |-> "C10", what |-> what, case |-> e.case, line |-> l, op |-> e.op, kind |-> e.kind, n |-> e.n, site |-> e.site, errno |-> e.errno]
AddIf(s, c, x) == IF c THEN Append(s, x) ELSE s

Step ==
    /\ l <= Len(Rec)
    /\ l' = l + 1
    /\ LET e == Rec[l]
           fired == e.fired
           b1 == AddIf(bad, e.outcome = "panic", V("panic or abort under an injected fault", e))
           b2 == AddIf(b1, e.outcome = "hang", V("call did not terminate under an injected fault", e))
           b3 == AddIf(b2, fired /\ e.outcome = "ok" /\ ~e.same_as_base, V("call reports success after a failed system call but its outcome differs from the unfaulted run", e))
           b4 == AddIf(b3, ~e.outside_same, V("tree outside the root changed", e))
           b5 == AddIf(b4, e.leaked, V("descriptor table changed besides the returned descriptor", e))
           b6a == AddIf(b5, e.kind = "eagain" /\ fired /\ e.n <= 2 /\ e.retried /\ ~(e.outcome = "ok" /\ e.same_as_base) /\ e.base_ok,
                       V("one or two EAGAIN answers of openat2 were not ridden out", e))
           b6 == AddIf(b6a, e.kind = "eagain" /\ fired /\ e.retried /\ e.base_ok /\ e.outcome \notin {"panic", "hang"}
                            /\ ~(e.outcome = "ok" /\ e.same_as_base) /\ e.errkind # "SAFETY",
                       V("an EAGAIN sequence of openat2 ended with neither the unfaulted outcome nor a safety violation", e))
           b7 == AddIf(b6, e.kind = "eagain" /\ fired /\ e.n >= Persistent /\ e.errkind # "SAFETY" /\ e.outcome # "panic" /\ e.outcome # "hang",
                       V("persistent EAGAIN did not surface as a safety violation", e))
           \* the measured bound of the operation's first lookup (e.bound > 0): fewer EAGAINs are ridden out, that many are not
           b7a == AddIf(b7, e.kind = "eagain" /\ fired /\ e.bound > 0 /\ e.n >= e.bound /\ e.errkind # "SAFETY" /\ e.outcome \notin {"panic", "hang"},
                        V("as many consecutive EAGAINs as the lookup's own retry bound did not surface as a safety violation (the aborted lookup was swallowed)", e))
           b7b == AddIf(b7a, e.kind = "eagain" /\ fired /\ e.bound > 0 /\ e.n < e.bound /\ e.base_ok /\ ~(e.outcome = "ok" /\ e.same_as_base) /\ e.outcome \notin {"panic", "hang"},
                        V("fewer consecutive EAGAINs than the lookup's own retry bound were not ridden out", e))
           b8 == AddIf(b7b, e.kind = "eagain" /\ fired /\ e.errkind = "EAGAIN", V("raw EAGAIN of openat2 surfaced to the caller", e))
       IN  bad' = b8

Spec == Init /\ [][Step]_vars

Accepted ==
    LET n == TLCGet("stats").diameter IN
    /\ PrintT(<<"CONSUMED", ToJson([lines |-> Len(Rec), diameter |-> n])>>)
    /\ n - 1 = Len(Rec)
Report == (l = Len(Rec) + 1) => PrintT(<<"REPORT", ToJson([bad |-> bad, kmm |-> <<>>])>>)
=============================================================================
