SPECIFICATION Spec
CONSTANTS
  Procs = {"p1"}
  Scenario <- S6
  MaxIno = 20
  KMaxLinks = 40
  TolerateEEXIST = TRUE
  RefuseDotDotTail = FALSE
  AtkMkdirNames <- const_NxNames
  MaxAttack = 1
INVARIANTS TypeOK OnlyNewDirs MutationsInside
CHECK_DEADLOCK FALSE
