SPECIFICATION Spec
CONSTANTS
  HandleKinds = {"fsopen", "open", "userfd_open", "open_tree_rec"}
  Resolvers = {"opath"}
  MaxMounts = 1
  EmitCases = FALSE
  ChkEachStep = FALSE
  ChkFinal = TRUE
  ChkLinkDentry = TRUE
  ChkBase = TRUE
  MaxRace = 2
  SkipChkOnSymlinks = FALSE
  ReadlinkByName = FALSE
INVARIANTS TypeOK GenuineStep PrivateUnaffectedStep
CHECK_DEADLOCK FALSE
