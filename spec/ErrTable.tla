------------------------------ MODULE ErrTable ------------------------------
(***************************************************************************)
(* The C error table (src/capi/error.rs): a mutex-protected map from live  *)
(* error id to the stored error.                                           *)
(*   store_error:  lock; loop { id := random in [INT_MIN, -4096];           *)
(*                 Occupied => retry;  Vacant => insert, return id }       *)
(*   pathrs_errorinfo(id): lock; remove(id) -> that error, or NULL         *)
(* Threads fail and consume concurrently; ids travel between threads.      *)
(*                                                                         *)
(* C16: every id handed out is below -4095, differs from every id not yet  *)
(* consumed, and its (single) consumption returns exactly that failure;    *)
(* a second consumption returns NULL.                                      *)
(***************************************************************************)
EXTENDS Integers, Sequences, FiniteSets, TLC

CONSTANTS Threads, IdSpace, MaxOps,
          RetryOnOccupied    \* TRUE = the code; FALSE = insert overwrites (mechanism removed)

VARIABLES table,      \* id -> failure tag, for live ids
          lock,       \* holder of the mutex or "none"
          pc,         \* per thread
          pick,       \* per thread: id drawn under the lock
          held,       \* ids handed out and not yet consumed: set of <<id, tag>> (what callers hold)
          nops,       \* failures generated so far (tags are 1..)
          got,        \* last consumption result per thread: <<id, expectedTag, returned>>
          consumed    \* tags already consumed once

vars == <<table, lock, pc, pick, held, nops, got, consumed>>
NULL == 0

Init ==
    /\ table = [i \in {} |-> 0] /\ lock = "none"
    /\ pc = [t \in Threads |-> "idle"] /\ pick = [t \in Threads |-> 0]
    /\ held = {} /\ nops = 0 /\ got = [t \in Threads |-> <<0, 0, 0>>] /\ consumed = {}

\* ---- store_error ------------------------------------------------------------------------------
FailLock(t) ==
    /\ pc[t] = "idle" /\ lock = "none" /\ nops < MaxOps
    /\ lock' = t /\ pc' = [pc EXCEPT ![t] = "picking"] /\ nops' = nops + 1
    /\ UNCHANGED <<table, pick, held, got, consumed>>
PickId(t) ==
    /\ pc[t] = "picking" /\ lock = t
    /\ \E id \in IdSpace :
          IF id \in DOMAIN table /\ RetryOnOccupied
          THEN UNCHANGED <<table, pc, pick, held>>          \* Occupied => continue
          ELSE /\ table' = [i \in DOMAIN table \cup {id} |-> IF i = id THEN nops ELSE table[i]]
               /\ pick' = [pick EXCEPT ![t] = id]
               /\ pc' = [pc EXCEPT ![t] = "stored"]
               /\ UNCHANGED held
    /\ UNCHANGED <<lock, nops, got, consumed>>
FailReturn(t) ==
    /\ pc[t] = "stored" /\ lock = t
    /\ lock' = "none" /\ pc' = [pc EXCEPT ![t] = "idle"]
    /\ held' = held \cup {<<pick[t], nops>>}          \* the caller now holds (id, its failure)
    /\ UNCHANGED <<table, pick, nops, got, consumed>>

\* ---- pathrs_errorinfo (by any thread, for an id somebody holds, or again for a consumed one) ---
Consume(t) ==
    /\ pc[t] = "idle" /\ lock = "none"
    /\ \E h \in held :
          /\ got' = [got EXCEPT ![t] = <<h[1], h[2], IF h[1] \in DOMAIN table THEN table[h[1]] ELSE NULL>>]
          /\ table' = [i \in DOMAIN table \ {h[1]} |-> table[i]]
          /\ held' = held \ {h}
          /\ consumed' = consumed \cup {h[2]}
    /\ UNCHANGED <<lock, pc, pick, nops>>

Next == \E t \in Threads : FailLock(t) \/ PickId(t) \/ FailReturn(t) \/ Consume(t)
Spec == Init /\ [][Next]_vars

\* ---- properties -------------------------------------------------------------------------------
IdBelowErrnoRange == \A id \in DOMAIN table : id <= -4096
LiveIdsDistinct   == \A a, b \in held : a[1] = b[1] => a = b
ConsumeReturnsThatFailure == \A t \in Threads : got[t][1] # 0 => got[t][3] = got[t][2]
TypeOK == lock \in Threads \cup {"none"}
=============================================================================
