------------------------------ MODULE TraceFS ------------------------------
(***************************************************************************)
(* Trace validation of executions recorded from the real library by the    *)
(* ptrace supervisor (fs projection).  The kernel model VFS replays every  *)
(* logged tree mutation of every process (library and attacker), the ghost *)
(* state everIn is recomputed after every event, and the property          *)
(* predicates are evaluated at every step:                                 *)
(*   C02  a successful lookup returns (or reads the body of) an inode that *)
(*        was reachable from the root at some moment during the call       *)
(*   C03  every mutating / opening syscall of the library is applied to a  *)
(*        directory that was inside the root at some moment of the call,   *)
(*        names one component, and the region outside the root is          *)
(*        unchanged by library steps                                       *)
(*   kernel-model conformance: the model predicts the logged result of     *)
(*        every mutation and the final snapshot equals the model's tree    *)
(* Violations are accumulated (not fatal) and printed by the               *)
(* postcondition, so that one run reports all of them.                     *)
(***************************************************************************)
EXTENDS VFS, Json, IOUtils, SequencesExt

Rec == ndJsonDeserialize(IOEnv.TRACE)
MaxId == 255
Ids == 0..MaxId

VARIABLES l, fs, everIn, bad, kmm, caseId, inCall, outside0

vars == <<l, fs, everIn, bad, kmm, caseId, inCall, outside0>>

EmptyFs == [dents |-> {}, kind |-> [i \in Ids |-> "free"], body |-> [i \in Ids |-> <<>>]]

FsOf(e) ==
    [dents |-> {<<d[1], d[2], d[3]>> : d \in ToSet(e.dents)},
     kind  |-> [i \in Ids |-> IF \E x \in ToSet(e.inodes) : x[1] = i
                               THEN (CHOOSE x \in ToSet(e.inodes) : x[1] = i)[2] ELSE "free"],
     body  |-> [i \in Ids |-> IF \E x \in ToSet(e.inodes) : x[1] = i
                               THEN (CHOOSE x \in ToSet(e.inodes) : x[1] = i)[3] ELSE <<>>]]

\* the part of the tree that is not below the root (as a set of dentries with kinds)
OutsideOf(f) ==
    LET inside == ReachFrom(f, {R}) IN
    {<<d, f.kind[d[3]]>> : d \in {x \in f.dents : x[1] \notin inside}}

Init ==
    /\ l = 1 /\ fs = EmptyFs /\ everIn = {} /\ bad = <<>> /\ kmm = <<>> /\ caseId = "" /\ inCall = FALSE
    /\ outside0 = {}

Bad(prop, what, e) == Append(bad, [prop |-> prop, what |-> what, case |-> caseId, line |-> l, nr |-> e.nr, d1 |-> e.d1, n1 |-> e.n1])
Kmm(what, e) == Append(kmm, [what |-> what, case |-> caseId, line |-> l, nr |-> e.nr, d1 |-> e.d1, n1 |-> e.n1, ret |-> e.ret])

\* apply a logged, *successful* mutation to the model (new inodes take the logged ids)
Apply(f, e) ==
    CASE e.nr = "mkdirat"   -> Mkdirat(f, e.d1, e.n1, e.rid)
      [] e.nr = "mknodat"   -> Mknodat(f, e.d1, e.n1, e.rid, e.kind)
      [] e.nr = "symlinkat" -> Symlinkat(f, e.d1, e.n1, e.rid, e.body)
      [] e.nr = "creat"     -> Mknodat(f, e.d1, e.n1, e.rid, "file")
      [] e.nr = "unlinkat"  -> IF e.flag = "REMOVEDIR" THEN Rmdirat(f, e.d1, e.n1) ELSE Unlinkat(f, e.d1, e.n1)
      [] e.nr = "renameat2" -> Renameat(f, e.d1, e.n1, e.d2, e.n2, e.flag)
      [] e.nr = "linkat"    -> Linkat(f, e.d1, e.n1, e.d2, e.n2)
      [] OTHER              -> [res |-> Ok(0), fs |-> f]

IsMutation(e) == e.nr \in {"mkdirat", "mknodat", "symlinkat", "creat", "unlinkat", "renameat2", "linkat"}
\* library syscalls that C03 speaks about: mutations and real (non-O_PATH) opens
Touches(e) == IsMutation(e) \/ e.nr \in {"open", "opencreat"}
TwoDirs(e) == e.nr \in {"renameat2", "linkat"}
OneComponent(n) == n # "" /\ \A i \in 1..Len(n) : SubSeq(n, i, i) # "/"

\* expected errno class of a failed mutation according to the model ("" = success)
ModelErr(f, e) == LET r == Apply(f, e).res IN IF r.ok THEN "" ELSE r.err

Step ==
    /\ l <= Len(Rec)
    /\ l' = l + 1
    /\ LET e == Rec[l] IN
       CASE e.ev = "init" ->
              /\ fs' = FsOf(e) /\ everIn' = ReachFrom(FsOf(e), {R}) /\ caseId' = e.case /\ inCall' = FALSE
              /\ outside0' = OutsideOf(FsOf(e))
              /\ UNCHANGED <<bad, kmm>>
         [] e.ev = "begin" ->
              \* "at some moment during the call": the window opens here
              /\ everIn' = ReachFrom(fs, {R}) /\ inCall' = TRUE
              /\ UNCHANGED <<fs, bad, kmm, caseId, outside0>>
         [] e.ev = "att" ->
              \* attacker mutation: replay it; the model must agree with the kernel about success
              LET r == Apply(fs, e) IN
              /\ fs' = IF e.ret = 0 /\ r.res.ok THEN r.fs ELSE fs
              /\ kmm' = IF (e.ret = 0) # r.res.ok THEN Kmm("attacker step: model and kernel disagree", e) ELSE kmm
              /\ everIn' = everIn \cup ReachFrom(fs', {R})
              /\ UNCHANGED <<bad, caseId, inCall, outside0>>
         [] e.ev = "sys" ->
              LET r    == Apply(fs, e)
                  okk  == e.ret >= 0
                  nfs  == IF IsMutation(e) /\ okk /\ r.res.ok THEN r.fs ELSE fs
                  c03a == Touches(e) /\ (e.d1 \notin everIn \/ (TwoDirs(e) /\ e.d2 \notin everIn))
                  c03b == Touches(e) /\ (~OneComponent(e.n1) \/ (TwoDirs(e) /\ ~OneComponent(e.n2)))
                  c03c == IsMutation(e) /\ okk /\ OutsideOf(nfs) # OutsideOf(fs)
                  b1 == IF c03a THEN Bad("C03", "library touched an entry of a directory that was never inside the root", e) ELSE bad
                  b2 == IF c03b THEN Append(b1, [prop |-> "C03", what |-> "name is not a single component", case |-> caseId, line |-> l, nr |-> e.nr, d1 |-> e.d1, n1 |-> e.n1]) ELSE b1
                  b3 == IF c03c THEN Append(b2, [prop |-> "C03", what |-> "library step changed the tree outside the root", case |-> caseId, line |-> l, nr |-> e.nr, d1 |-> e.d1, n1 |-> e.n1]) ELSE b2
              IN
              /\ fs' = nfs
              /\ bad' = b3
              /\ kmm' = IF IsMutation(e) /\ e.d1 # 0 /\ ~e.inj /\ (okk # r.res.ok) THEN Kmm("library step: model and kernel disagree", e) ELSE kmm
              /\ everIn' = everIn \cup ReachFrom(nfs, {R})
              /\ UNCHANGED <<caseId, inCall, outside0>>
         [] e.ev = "end" ->
              \* C02: a successful lookup result was inside the root at some moment of the call
              /\ bad' = IF e.flag = "lookup" /\ e.ret = 0 /\ e.rid \notin everIn
                        THEN Bad("C02", "lookup returned an object that was never inside the root", e) ELSE bad
              /\ inCall' = FALSE
              /\ UNCHANGED <<fs, everIn, kmm, caseId, outside0>>
         [] e.ev = "snap" ->
              \* the model's tree must equal the real final tree (nothing unlogged happened)
              /\ kmm' = IF FsOf(e).dents # fs.dents THEN Kmm("final snapshot differs from the model's tree", e) ELSE kmm
              /\ UNCHANGED <<fs, everIn, bad, caseId, inCall, outside0>>
         [] OTHER -> UNCHANGED <<fs, everIn, bad, kmm, caseId, inCall, outside0>>

Spec == Init /\ [][Step]_vars

\* acceptance: every line consumed; the verdict (bad / kmm) is printed as JSON
Accepted ==
    LET n == TLCGet("stats").diameter IN
    /\ PrintT(<<"CONSUMED", ToJson([lines |-> Len(Rec), diameter |-> n])>>)
    /\ n - 1 = Len(Rec)

Report == (l = Len(Rec) + 1) => PrintT(<<"REPORT", ToJson([bad |-> bad, kmm |-> kmm])>>)
=============================================================================
