------------------------------ MODULE TraceFS ------------------------------
(***************************************************************************)
(* Trace validation of executions recorded from the real library by the    *)
(* ptrace supervisor (fs projection).  The kernel model VFS replays every  *)
(* logged tree mutation of every process (library and attacker), the ghost *)
(* state everIn is recomputed after every event, and the property          *)
(* predicates are evaluated at every step:                                 *)
(*   C02  a successful lookup returns (or reads the body of) an inode that *)
(*        was reachable from the root at some moment during the call       *)
(*   C03  every mutating / opening syscall of the library is applied to a  *)
(*        directory that was inside the root at some moment of the call,   *)
(*        names one component, and the region outside the root is          *)
(*        unchanged by library steps                                       *)
(*   kernel-model conformance: the model predicts the logged result of     *)
(*        every mutation and the final snapshot equals the model's tree    *)
(* Violations are accumulated (not fatal) and printed by the               *)
(* postcondition, so that one run reports all of them.                     *)
(***************************************************************************)
EXTENDS VFS, Json, IOUtils, SequencesExt

Rec == ndJsonDeserialize(IOEnv.TRACE)
MaxId == 255
Ids == 0..MaxId

VARIABLES l, fs, everIn, bad, kmm, caseId, inCall, outside0, fs0, calls, attacked

vars == <<l, fs, everIn, bad, kmm, caseId, inCall, outside0, fs0, calls, attacked>>

EmptyFs == [dents |-> {}, kind |-> [i \in Ids |-> "free"], body |-> [i \in Ids |-> <<>>]]

FsOf(e) ==
    [dents |-> {<<d[1], d[2], d[3]>> : d \in ToSet(e.dents)},
     kind  |-> [i \in Ids |-> IF \E x \in ToSet(e.inodes) : x[1] = i
                               THEN (CHOOSE x \in ToSet(e.inodes) : x[1] = i)[2] ELSE "free"],
     body  |-> [i \in Ids |-> IF \E x \in ToSet(e.inodes) : x[1] = i
                               THEN (CHOOSE x \in ToSet(e.inodes) : x[1] = i)[3] ELSE <<>>]]

\* the part of the tree that is not below the root (as a set of dentries with kinds)
OutsideOf(f) ==
    LET inside == ReachFrom(f, {R}) IN
    {<<d, f.kind[d[3]]>> : d \in {x \in f.dents : x[1] \notin inside}}

Init ==
    /\ l = 1 /\ fs = EmptyFs /\ everIn = {} /\ bad = <<>> /\ kmm = <<>> /\ caseId = "" /\ inCall = FALSE
    /\ outside0 = {} /\ fs0 = EmptyFs /\ calls = <<>> /\ attacked = FALSE

Bad(prop, what, e) == Append(bad, [prop |-> prop, what |-> what, case |-> caseId, line |-> l, nr |-> e.nr, d1 |-> e.d1, n1 |-> e.n1])
Kmm(what, e) == Append(kmm, [what |-> what, case |-> caseId, line |-> l, nr |-> e.nr, d1 |-> e.d1, n1 |-> e.n1, ret |-> e.ret])

\* apply a logged, *successful* mutation to the model (new inodes take the logged ids)
Apply(f, e) ==
    CASE e.nr = "mkdirat"   -> Mkdirat(f, e.d1, e.n1, e.rid)
      [] e.nr = "mknodat"   -> Mknodat(f, e.d1, e.n1, e.rid, e.kind)
      [] e.nr = "symlinkat" -> Symlinkat(f, e.d1, e.n1, e.rid, e.body)
      [] e.nr = "creat"     -> Mknodat(f, e.d1, e.n1, e.rid, "file")
      [] e.nr = "unlinkat"  -> IF e.flag = "REMOVEDIR" THEN Rmdirat(f, e.d1, e.n1) ELSE Unlinkat(f, e.d1, e.n1)
      [] e.nr = "renameat2" -> Renameat(f, e.d1, e.n1, e.d2, e.n2, e.flag)
      [] e.nr = "linkat"    -> Linkat(f, e.d1, e.n1, e.d2, e.n2)
      [] OTHER              -> [res |-> Ok(0), fs |-> f]

IsMutation(e) == e.nr \in {"mkdirat", "mknodat", "symlinkat", "creat", "unlinkat", "renameat2", "linkat"}
\* library syscalls that C03 speaks about: mutations and real (non-O_PATH) opens
Touches(e) == IsMutation(e) \/ e.nr \in {"open", "opencreat"}
TwoDirs(e) == e.nr \in {"renameat2", "linkat"}
OneComponent(n) == n # "" /\ \A i \in 1..Len(n) : SubSeq(n, i, i) # "/"

\* expected errno class of a failed mutation according to the model ("" = success)
ModelErr(f, e) == LET r == Apply(f, e).res IN IF r.ok THEN "" ELSE r.err


(***************************************************************************)
(* Postconditions of mkdir_all (C12) and remove_all (C13), evaluated on    *)
(* the real initial and final snapshots once all calls of a case (one or   *)
(* several library processes, no attacker) have returned.                  *)
(***************************************************************************)
FollowDir == [follow |-> TRUE, dir |-> FALSE, opath |-> TRUE, nosym |-> FALSE]
NoFollow  == [follow |-> FALSE, dir |-> FALSE, opath |-> TRUE, nosym |-> FALSE]
NonDot(raw) == SelectSeq(raw, LAMBDA c : c \notin {"", "."})
Added(f)   == f.dents \ fs0.dents
Removed(f) == fs0.dents \ f.dents
\* the added entries are directories forming one chain per caller: every added entry is a new
\* directory whose parent is an old directory or another added directory
AddedAreNewDirs(f) == \A d \in Added(f) : f.kind[d[3]] = "dir" /\ fs0.kind[d[3]] = "free"
\* names of the added entries all occur among the (non-dot) components of some mkdir_all path
AddedNamesFromPaths(f) ==
    \A d \in Added(f) : \E i \in DOMAIN calls : calls[i].op = "mkdir_all" /\ \E j \in DOMAIN calls[i].path : calls[i].path[j] = d[2]
\* everything removed lies in the initial subtree of one of the remove_all targets
Target(c) ==   \* the dentry (parent inode, name) a remove_all path names in the initial tree, or <<0, "">>
    LET raw == c.path
        sp  == IF Len(raw) = 1 THEN [dir |-> <<".">>, name |-> raw[1]]
               ELSE [dir |-> IF SubSeq(raw, 1, Len(raw) - 1) = <<"">> THEN <<"", "">> ELSE SubSeq(raw, 1, Len(raw) - 1), name |-> raw[Len(raw)]]
        pr  == KResolve(fs0, R, sp.dir, FollowDir, 40)
    IN  IF pr.ok /\ sp.name \notin {"", ".", ".."} /\ HasChild(fs0, pr.ino, sp.name) THEN <<pr.ino, sp.name>> ELSE <<0, "">>
SubtreeDents(t) ==
    IF t[1] = 0 THEN {}
    ELSE LET top == Child(fs0, t[1], t[2])
             below == IF IsDir(fs0, top) THEN ReachFrom(fs0, {top}) ELSE {}
         IN  {<<t[1], t[2], top>>} \cup {d \in fs0.dents : d[1] \in below}
PostViolations(f, e) ==
    LET mk == {i \in DOMAIN calls : calls[i].op = "mkdir_all"}
        rm == {i \in DOMAIN calls : calls[i].op = "remove_all"}
        mkOk == {i \in mk : calls[i].ok}
        rmOk == {i \in rm : calls[i].ok}
        v1 == IF mk # {} /\ (Removed(f) # {} /\ rm = {}) THEN <<[prop |-> "C12", what |-> "mkdir_all removed or replaced an existing entry", case |-> caseId, line |-> l, nr |-> "", d1 |-> 0, n1 |-> ""]>> ELSE <<>>
        v2 == IF mk # {} /\ rm = {} /\ ~(AddedAreNewDirs(f) /\ AddedNamesFromPaths(f)) THEN <<[prop |-> "C12", what |-> "mkdir_all added something other than new directories named by its path", case |-> caseId, line |-> l, nr |-> "", d1 |-> 0, n1 |-> ""]>> ELSE <<>>
        v3 == IF \E i \in mkOk : rm = {} /\ LET k == KResolve(f, R, calls[i].path, FollowDir, 40) IN ~(k.ok /\ k.ino = calls[i].rid /\ IsDir(f, k.ino))
              THEN <<[prop |-> "C12", what |-> "mkdir_all succeeded but its handle is not the in-root resolution of the path in the final tree", case |-> caseId, line |-> l, nr |-> "", d1 |-> 0, n1 |-> ""]>> ELSE <<>>
        v5 == IF mk # {} /\ rm = {} /\ e.rid >= 0 /\ (\E d \in Added(f) : \E x \in ToSet(e.inodes) : x[1] = d[3] /\ x[4] # e.rid)
              THEN <<[prop |-> "C12", what |-> "mkdir_all created a directory whose mode is not the requested one (modulo umask)", case |-> caseId, line |-> l, nr |-> "", d1 |-> 0, n1 |-> ""]>> ELSE <<>>
        v4 == IF e.expectall /\ (\E i \in mk : ~calls[i].ok) THEN <<[prop |-> "C12", what |-> "a concurrent mkdir_all failed although the design model proves that these calls all succeed", case |-> caseId, line |-> l, nr |-> "", d1 |-> 0, n1 |-> ""]>> ELSE <<>>
        w1 == IF rm # {} /\ mk = {} /\ Added(f) # {} THEN <<[prop |-> "C13", what |-> "remove_all added an entry", case |-> caseId, line |-> l, nr |-> "", d1 |-> 0, n1 |-> ""]>> ELSE <<>>
        w2 == IF rm # {} /\ mk = {} /\ ~(Removed(f) \subseteq UNION {SubtreeDents(Target(calls[i])) : i \in rm})
              THEN <<[prop |-> "C13", what |-> "remove_all removed an entry outside the named subtree", case |-> caseId, line |-> l, nr |-> "", d1 |-> 0, n1 |-> ""]>> ELSE <<>>
        w3 == IF \E i \in rmOk : Target(calls[i])[1] # 0 /\ HasChild(f, Target(calls[i])[1], Target(calls[i])[2]) /\ mk = {}
              THEN <<[prop |-> "C13", what |-> "remove_all succeeded but the named entry still exists", case |-> caseId, line |-> l, nr |-> "", d1 |-> 0, n1 |-> ""]>> ELSE <<>>
        w4 == IF \E i \in rmOk : Target(calls[i])[1] # 0 /\ mk = {} /\ ~(SubtreeDents(Target(calls[i])) \subseteq Removed(f))
              THEN <<[prop |-> "C13", what |-> "remove_all succeeded but part of the named subtree is still there", case |-> caseId, line |-> l, nr |-> "", d1 |-> 0, n1 |-> ""]>> ELSE <<>>
        w5 == IF e.expectall /\ (\E i \in rm : ~calls[i].ok) THEN <<[prop |-> "C13", what |-> "a concurrent remove_all failed although the design model proves that these calls all succeed", case |-> caseId, line |-> l, nr |-> "", d1 |-> 0, n1 |-> ""]>> ELSE <<>>
    IN  v1 \o v2 \o v3 \o v4 \o v5 \o w1 \o w2 \o w3 \o w4 \o w5

Step ==
    /\ l <= Len(Rec)
    /\ l' = l + 1
    /\ LET e == Rec[l] IN
       CASE e.ev = "init" ->
              /\ fs' = FsOf(e) /\ everIn' = ReachFrom(FsOf(e), {R}) /\ caseId' = e.case /\ inCall' = FALSE
              /\ outside0' = OutsideOf(FsOf(e)) /\ fs0' = FsOf(e) /\ calls' = <<>> /\ attacked' = FALSE
              /\ UNCHANGED <<bad, kmm>>
         [] e.ev = "begin" ->
              \* "at some moment during the call": the window opens here
              /\ everIn' = ReachFrom(fs, {R}) /\ inCall' = TRUE
              /\ UNCHANGED <<fs, bad, kmm, caseId, outside0, fs0, calls, attacked>>
         [] e.ev = "att" ->
              \* attacker mutation: replay it; the model must agree with the kernel about success
              LET r == Apply(fs, e) IN
              /\ fs' = IF e.ret = 0 /\ r.res.ok THEN r.fs ELSE fs
              /\ kmm' = IF (e.ret = 0) # r.res.ok THEN Kmm("attacker step: model and kernel disagree", e) ELSE kmm
              /\ everIn' = everIn \cup ReachFrom(fs', {R})
              /\ attacked' = TRUE
              /\ UNCHANGED <<bad, caseId, inCall, outside0, fs0, calls>>
         [] e.ev = "sys" ->
              LET r    == Apply(fs, e)
                  okk  == e.ret >= 0
                  nfs  == IF IsMutation(e) /\ okk /\ r.res.ok THEN r.fs ELSE fs
                  c03a == Touches(e) /\ (e.d1 \notin everIn \/ (TwoDirs(e) /\ e.d2 \notin everIn))
                  c03b == Touches(e) /\ (~OneComponent(e.n1) \/ (TwoDirs(e) /\ ~OneComponent(e.n2)))
                  \* (the region outside the root may change through a directory that *was* inside and has
                  \*  been moved out by the attacker: the property only forbids touching entries of
                  \*  directories that were never inside, which is c03a; with no attacker c03a implies the
                  \*  outside frame, which the static check verifies on snapshots)
                  c03c == IsMutation(e) /\ okk /\ ~attacked /\ OutsideOf(nfs) # OutsideOf(fs)
                  b1 == IF c03a THEN Bad("C03", "library touched an entry of a directory that was never inside the root", e) ELSE bad
                  b2 == IF c03b THEN Append(b1, [prop |-> "C03", what |-> "name is not a single component", case |-> caseId, line |-> l, nr |-> e.nr, d1 |-> e.d1, n1 |-> e.n1]) ELSE b1
                  b3 == IF c03c THEN Append(b2, [prop |-> "C03", what |-> "library step changed the tree outside the root", case |-> caseId, line |-> l, nr |-> e.nr, d1 |-> e.d1, n1 |-> e.n1]) ELSE b2
              IN
              /\ fs' = nfs
              /\ bad' = b3
              /\ kmm' = IF IsMutation(e) /\ e.d1 # 0 /\ ~e.inj /\ (okk # r.res.ok) THEN Kmm("library step: model and kernel disagree", e) ELSE kmm
              /\ everIn' = everIn \cup ReachFrom(nfs, {R})
              /\ UNCHANGED <<caseId, inCall, outside0, fs0, calls, attacked>>
         [] e.ev = "end" ->
              \* C02: a successful lookup result was inside the root at some moment of the call
              /\ bad' = IF e.flag = "lookup" /\ e.ret = 0 /\ e.rid \notin everIn
                        THEN Bad("C02", "lookup returned an object that was never inside the root", e)
                        \* (an object the call itself created is covered by the rule for its parent directory)
                        ELSE IF e.flag = "fdret" /\ e.ret = 0 /\ e.rid \notin everIn /\ e.rid \in Ids /\ fs0.kind[e.rid] # "free"
                        THEN Bad("C03", "mutating operation returned a descriptor of an object that was never inside the root", e)
                        ELSE bad
              /\ inCall' = FALSE
              /\ calls' = Append(calls, [op |-> e.op, path |-> e.body, ok |-> (e.ret = 0), rid |-> e.rid, who |-> e.who])
              /\ UNCHANGED <<fs, everIn, kmm, caseId, outside0, fs0, attacked>>
         [] e.ev = "snap" ->
              \* the model's tree must equal the real final tree (nothing unlogged happened)
              /\ kmm' = IF FsOf(e).dents # fs.dents THEN Kmm("final snapshot differs from the model's tree", e) ELSE kmm
              /\ bad' = IF e.flag = "post" THEN bad \o PostViolations(FsOf(e), e) ELSE bad
              /\ UNCHANGED <<fs, everIn, caseId, inCall, outside0, fs0, calls, attacked>>
         [] OTHER -> UNCHANGED <<fs, everIn, bad, kmm, caseId, inCall, outside0, fs0, calls, attacked>>

Spec == Init /\ [][Step]_vars

\* acceptance: every line consumed; the verdict (bad / kmm) is printed as JSON
Accepted ==
    LET n == TLCGet("stats").diameter IN
    /\ PrintT(<<"CONSUMED", ToJson([lines |-> Len(Rec), diameter |-> n])>>)
    /\ n - 1 = Len(Rec)

Report == (l = Len(Rec) + 1) => PrintT(<<"REPORT", ToJson([bad |-> bad, kmm |-> kmm])>>)
=============================================================================
