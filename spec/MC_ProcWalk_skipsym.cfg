SPECIFICATION Spec
CONSTANTS
  HandleKinds = {"fsopen", "open", "userfd_open", "open_tree_rec"}
  Resolvers = {"opath"}
  MaxMounts = 1
  EmitCases = FALSE
  ChkEachStep = TRUE
  ChkFinal = TRUE
  ChkLinkDentry = TRUE
  ChkBase = TRUE
  MaxRace = 2
  SkipChkOnSymlinks = TRUE
  ReadlinkByName = FALSE
INVARIANTS TypeOK GenuineStep PrivateUnaffectedStep
CHECK_DEADLOCK FALSE
