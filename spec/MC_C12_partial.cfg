SPECIFICATION Spec
CONSTANTS
  Trees <- const_TreesPartial
  Ops <- const_OpsMk
  MaxIno = 24
  KMaxLinks = 40
  EmitCases = FALSE
  RefuseDotNames = FALSE
  RefuseOPathCreate = TRUE
  KeepDotInStack = FALSE
INVARIANTS TypeOK PartialBackendsAgree SymlinkStackNeverBreaks
CHECK_DEADLOCK FALSE
