"""Shared machinery for the /verif checks: building the harness, running TLC, running pv,
known findings, evidence files, verdict lines."""
import json, os, re, subprocess, sys, time, shutil, hashlib

VERIF = os.path.dirname(os.path.dirname(os.path.abspath(__file__)))
SPEC = os.path.join(VERIF, "spec")
HARNESS = os.path.join(VERIF, "harness")
PV = os.path.join(HARNESS, "target", "debug", "pv")
EVID = os.path.join(VERIF, "evidence")
REPLAYS = os.path.join(EVID, "replays")
WORK = os.environ.get("VERIF_WORK", "/dev/shm/pathrs-verif-work.%d" % os.getpid())

O = dict(RDONLY=0, WRONLY=1, RDWR=2, CREAT=0o100, EXCL=0o200, NOCTTY=0o400, TRUNC=0o1000, APPEND=0o2000,
         NONBLOCK=0o4000, DSYNC=0o10000, DIRECT=0o40000, LARGEFILE=0o100000, DIRECTORY=0o200000,
         NOFOLLOW=0o400000, NOATIME=0o1000000, CLOEXEC=0o2000000, SYNC=0o4010000, PATH=0o10000000,
         TMPFILE=0o20200000)
ERRNO = {1: "EPERM", 2: "ENOENT", 4: "EINTR", 5: "EIO", 6: "ENXIO", 9: "EBADF", 11: "EAGAIN", 12: "ENOMEM",
         13: "EACCES", 16: "EBUSY", 17: "EEXIST", 18: "EXDEV", 20: "ENOTDIR", 21: "EISDIR", 22: "EINVAL",
         23: "ENFILE", 24: "EMFILE", 26: "ETXTBSY", 36: "ENAMETOOLONG", 38: "ENOSYS", 39: "ENOTEMPTY",
         40: "ELOOP", 95: "EOPNOTSUPP"}
ERRNO_NUM = {v: k for k, v in ERRNO.items()}


def seed():
    try:
        return int(os.environ.get("VERIF_SEED", "0"))
    except ValueError:
        return 0


def tier(argv_tier=None):
    return argv_tier or os.environ.get("VERIF_TIER", "quick")


def workdir():
    os.makedirs(WORK, exist_ok=True)
    return WORK


def cleanup_work():
    shutil.rmtree(WORK, ignore_errors=True)


class ToolError(Exception):
    pass


def build_harness():
    """(Re)build the harness and with it the library from /repo's working tree."""
    t0 = time.time()
    env = dict(os.environ, CARGO_NET_OFFLINE="true")
    lock = os.path.join(HARNESS, "Cargo.lock")
    if not os.path.exists(lock):
        shutil.copy("/repo/Cargo.lock", lock)
    p = subprocess.run(["cargo", "build", "--offline"], cwd=HARNESS, env=env, stdout=subprocess.PIPE,
                       stderr=subprocess.STDOUT, text=True)
    if p.returncode != 0:
        sys.stdout.write(p.stdout[-4000:])
        raise ToolError("harness build failed")
    return time.time() - t0


# ------------------------------------------------------------------------------------------ TLC

def run_tlc(module, cfg, workers=8, timeout=1200, extra=None, simulate=None, env_extra=None, coverage=False):
    """Run TLC; returns dict(states, distinct, out, prints, violated, errtrace, ok, wall)."""
    meta = os.path.join(workdir(), "tlc-%s-%d" % (os.path.basename(cfg), int(time.time() * 1000) % 100000))
    cmd = ["timeout", str(timeout), "tlc", "-workers", str(workers), "-metadir", meta, "-cleanup", "-noGenerateSpecTE",
           "-config", cfg]
    if coverage:
        cmd += ["-coverage", "1"]
    if simulate:
        cmd += ["-simulate", simulate]
    if extra:
        cmd += extra
    cmd.append(module)
    env = dict(os.environ)
    # recursive operators (KWalk over a 130-link chain, ReachFrom) need more than the default thread stack
    env.setdefault("JAVA_TOOL_OPTIONS", "-Xss512m")
    if env_extra:
        env.update(env_extra)
    t0 = time.time()
    p = subprocess.run(cmd, cwd=SPEC, stdout=subprocess.PIPE, stderr=subprocess.STDOUT, text=True, env=env)
    wall = time.time() - t0
    shutil.rmtree(meta, ignore_errors=True)
    out = p.stdout
    res = dict(out=out, wall=wall, rc=p.returncode, states=0, distinct=0, violated=None, prints=[], complete=False)
    m = re.findall(r"(\d+) states generated, (\d+) distinct states found", out)
    if m:
        res["states"], res["distinct"] = int(m[-1][0]), int(m[-1][1])
    if "Model checking completed. No error has been found." in out:
        res["complete"] = True
    m = re.search(r"Invariant (\S+) is violated", out)
    if m:
        res["violated"] = m.group(1)
    m = re.search(r"The depth of the complete state graph search is (\d+)", out)
    if m:
        res["depth"] = int(m.group(1))
    if p.returncode == 124:
        res["timeout"] = True
    for line in out.splitlines():
        if line.startswith('<<"') and line.endswith('">>'):
            m = re.match(r'<<"([A-Z]+)", "(.*)">>$', line)
            if m:
                tag, body = m.group(1), m.group(2)
                body = body.replace('\\"', '"').replace("\\\\", "\\")
                try:
                    res["prints"].append((tag, json.loads(body)))
                except Exception:
                    pass
    if coverage:
        cov = {}
        for m in re.finditer(r"<(\w+) line \d+, col \d+ to line \d+, col \d+ of module (\w+)>: (\d+):(\d+)", out):
            cov[m.group(1)] = (int(m.group(3)), int(m.group(4)))
        res["coverage"] = cov
    if p.returncode not in (0, 12, 124) and res["violated"] is None and not res["complete"]:
        # 12 = safety violation; anything else is a tool problem
        if "Error:" in out or "error" in out.lower():
            res["tool_error"] = out[-3000:]
    return res


# ------------------------------------------------------------------------------------------- pv

def run_pv(cases, jobs=8, tag="pv"):
    """Execute pv cases (list of dicts); returns list of result dicts in input order (by id)."""
    wd = workdir()
    cf = os.path.join(wd, "%s-cases-%d.ndjson" % (tag, int(time.time() * 1000) % 1000000))
    of = cf.replace("-cases-", "-out-")
    with open(cf, "w") as f:
        for c in cases:
            f.write(json.dumps(c) + "\n")
    p = subprocess.run([PV, "exec", cf, of, str(jobs)], stdout=subprocess.PIPE, stderr=subprocess.STDOUT, text=True)
    if p.returncode != 0:
        raise ToolError("pv exec failed (%d): %s" % (p.returncode, p.stdout[-2000:]))
    out = []
    with open(of) as f:
        for line in f:
            line = line.strip()
            if line:
                out.append(json.loads(line))
    if os.environ.get("VERIF_KEEP"):
        shutil.copy(cf, "/dev/shm/t/keep-%s-cases.ndjson" % tag)
        shutil.copy(of, "/dev/shm/t/keep-%s-out.ndjson" % tag)
    os.unlink(cf)
    os.unlink(of)
    if len(out) != len(cases):
        raise ToolError("pv returned %d results for %d cases" % (len(out), len(cases)))
    return out


def join_path(raw):
    return "/".join(raw)


def node_to_pv(n):
    d = dict(id=n["id"], p=n["p"], n=n["n"], k=n["k"])
    if n["k"] == "lnk":
        d["b"] = "/".join(n["b"])
    return d


def lib_outcome(r):
    """Normalise a library call result for comparison with the model: ('ok', id) | ('err', NAME)."""
    if r.get("panic") is not None:
        return ("panic", r.get("panic_loc") or r.get("panic"))
    if r.get("ok"):
        if "body" in r:
            return ("body", r["body"])
        return ("ok", r.get("id"))
    if "capi_id" in r:
        e = r.get("errno", 0)
        return ("err", ERRNO.get(e, "E%d" % e) if e else "NOERRNO")
    k = r.get("kind")
    if k == "OsError":
        e = r.get("errno", 0)
        return ("err", ERRNO.get(e, "E%d" % e))
    if k == "SafetyViolation":
        return ("err", "SAFETY")
    return ("err", k or "unknown")


def model_outcome(m):
    if m.get("ok"):
        if "body" in m:
            return ("body", "/".join(m["body"]))
        return ("ok", m.get("ino"))
    return ("err", m.get("err"))


# -------------------------------------------------------------------------- findings / evidence

def load_known():
    p = os.path.join(VERIF, "known_findings.json")
    if not os.path.exists(p):
        return dict(findings=[], fixed=[])
    return json.load(open(p))


class Verdict:
    """Collects violations, matches them against known findings, prints the interface lines."""

    def __init__(self, prop):
        self.prop = prop
        self.violations = []   # (signature, description, replay case)
        self.known_hit = {}
        self.known = [k for k in load_known().get("findings", []) if k.get("property") == prop]
        self.notes = []

    def violation(self, sig, desc, replay):
        """sig: dict identifying the failing input / site; matched against known findings."""
        for k in self.known:
            if all(sig.get(a) == b for a, b in k.get("match", {}).items()):
                self.known_hit.setdefault(k["id"], []).append(desc)
                return False
        self.violations.append((sig, desc, replay))
        return True

    def finish(self):
        os.makedirs(REPLAYS, exist_ok=True)
        for k in self.known:
            if k["id"] in self.known_hit:
                print("KNOWN-FINDING: property=%s %s (%d occurrence(s) this run)" % (self.prop, k["what"], len(self.known_hit[k["id"]])))
            else:
                print("KNOWN-FINDING: property=%s %s (listed; not re-observed in this run's sample)" % (self.prop, k["what"]))
        seen = 0
        for i, (sig, desc, replay) in enumerate(self.violations[:20]):
            h = hashlib.sha1(json.dumps(sig, sort_keys=True).encode()).hexdigest()[:10]
            path = os.path.join(REPLAYS, "%s-%s.json" % (self.prop, h))
            with open(path, "w") as f:
                json.dump(dict(property=self.prop, signature=sig, description=desc, case=replay), f, indent=1)
            print("VIOLATION property=%s replay=%s" % (self.prop, path))
            print("  " + desc[:600])
            seen += 1
        if len(self.violations) > 20:
            print("  ... and %d more violations" % (len(self.violations) - 20))
        return 1 if self.violations else 0


def write_evidence(prop, tier_, level, coverage, assumptions, wall, violations, extra=None):
    os.makedirs(EVID, exist_ok=True)
    ev = dict(property_id=prop, tier=tier_, seed=seed(), level=level, coverage=coverage, assumptions=assumptions,
              wall_s=round(wall, 2), violations=violations)
    if extra:
        ev.update(extra)
    with open(os.path.join(EVID, "%s.json" % prop), "w") as f:
        json.dump(ev, f, indent=1, sort_keys=True)


def noisy_eagain(res):
    """did a (kernel-backend) call of this pv result end in EAGAIN, or in the safety violation the
    library raises after 16 consecutive EAGAINs?  openat2 answers EAGAIN whenever any rename or
    mount happens anywhere on the machine during a walk containing '..' (DESIGN 5): noise, not a verdict"""
    for o in res.get("out", []):
        for r in o.get("results", []) or []:
            if r.get("injected_eagain"):
                continue
            if not r.get("ok") and ((r.get("kind") == "OsError" and r.get("errno") == 11) or (r.get("kind") == "SafetyViolation" and "openat2 to abort" in (r.get("msg") or ""))
                                    or ("capi_id" in r and r.get("errno") in (11,) ) or ("capi_id" in r and r.get("errno") == 18 and "openat2 to abort" in (r.get("msg") or ""))):
                return True
    return False


def rerun_noisy(cases, results, tag="rerun", attempts=4):
    """re-execute (sequentially) the cases whose outcome was EAGAIN noise; returns (results, still_noisy)"""
    results = list(results)
    for _ in range(attempts):
        idx = [i for i, r in enumerate(results) if noisy_eagain(r) and not cases[i].get("faults") and not cases[i].get("sched")]
        if not idx:
            return results, 0
        new = run_pv([cases[i] for i in idx], jobs=1, tag=tag)
        for i, r in zip(idx, new):
            results[i] = r
    still = len([i for i, r in enumerate(results) if noisy_eagain(r) and not cases[i].get("faults") and not cases[i].get("sched")])
    return results, still
