"""Projection of pv results (raw ptrace records) into the event schema of spec/TraceFS.tla and
spec/TraceDiscipline.tla, and the TLC trace-validation runner."""
import json, os, subprocess, time, re
from lib.common import *

S_IFMT = 0o170000
KIND_OF_MODE = {0o040000: "dir", 0o100000: "file", 0o120000: "lnk", 0o010000: "fifo", 0o020000: "chr", 0o060000: "blk", 0o140000: "sock", 0: "file"}
LOOKUP_OPS = ("resolve", "open", "readlink")
FDRET_OPS = ("create_file", "mkdir_all")      # mutating operations that hand a descriptor back (C03: it must be inside)


def split_body(b):
    return (b or "").split("/")


def blank(ev, case):
    return dict(ev=ev, case=case, who=0, nr="", d1=0, n1="", d2=0, n2="", flag="", ret=0, rid=0, kind="", body=[], dents=[], inodes=[], op="", inj=False, expectall=False, denied=[], pinned=[])


def snap_event(ev, case, snap):
    e = blank(ev, case)
    e["dents"] = [[d["p"], d["n"], d["c"]] for d in snap["dents"]]
    e["inodes"] = [[i["id"], i["k"], split_body(i.get("b")) if i["k"] == "lnk" else [], i.get("mode", 0)] for i in snap["inodes"]]
    return e


def project_fs(res, case_spec):
    """pv result of one traced case -> list of TraceFS events"""
    cid = str(res.get("id"))
    out = [snap_event("init", cid, res["init"])]
    calls = case_spec.get("calls", [])
    results = []
    for o in res.get("out", []):
        rs = o.get("results") or []
        if not results:
            results = [None] * len(rs)
        for i, r in enumerate(rs):
            if r is not None and not r.get("skip") and i < len(results):
                results[i] = r
    cur_call = {}
    last_readlink = {}
    for e in res.get("events", []):
        who = e.get("who", 0)
        if e["ev"] == "mark":
            tag = e["tag"]
            if tag.startswith("BEGIN "):
                j = int(tag.split()[1])
                cur_call[who] = j
                b = blank("begin", cid)
                b["who"] = who
                b["op"] = calls[j]["op"] if j < len(calls) else ""
                out.append(b)
            elif tag == "END" and who in cur_call:
                j = cur_call.pop(who)
                en = blank("end", cid)
                en["who"] = who
                op = calls[j]["op"] if j < len(calls) else ""
                en["op"] = op
                r = results[j] if j < len(results) and results[j] else {}
                en["flag"] = "lookup" if op in LOOKUP_OPS else ("fdret" if op in FDRET_OPS else "other")
                en["body"] = (calls[j].get("path") or "").split("/") if j < len(calls) else []
                if r.get("ok"):
                    en["ret"] = 0
                    if op == "readlink":
                        en["rid"] = last_readlink.get(who, 0)
                    else:
                        en["rid"] = r.get("id") or 0
                else:
                    en["ret"] = -1
                out.append(en)
            continue
        if e["ev"] == "att":
            a = blank("att", cid)
            act = e.get("act")
            a["ret"] = e.get("ret", 0)
            if act in ("rename", "exchange"):
                a.update(nr="renameat2", d1=e["sp"], n1=e["sn"], d2=e["dp"], n2=e["dn"], flag="EXCHANGE" if act == "exchange" else "")
            elif act in ("unlink", "rmdir"):
                a.update(nr="unlinkat", d1=e["p"], n1=e["n"], flag="REMOVEDIR" if act == "rmdir" else "")
            elif act == "mkdir":
                a.update(nr="mkdirat", d1=e["p"], n1=e["n"], rid=e.get("new_id", 0), kind="dir")
            elif act == "symlink":
                a.update(nr="symlinkat", d1=e["p"], n1=e["n"], rid=e.get("new_id", 0), kind="lnk", body=split_body(e.get("body")))
            elif act in ("mkfile", "mkfifo"):
                a.update(nr="mknodat", d1=e["p"], n1=e["n"], rid=e.get("new_id", 0), kind="file" if act == "mkfile" else "fifo")
            out.append(a)
            continue
        if e["ev"] != "sys":
            continue
        nr = e["nr"]
        s = blank("sys", cid)
        s["who"] = who
        s["ret"] = e.get("ret", 0)
        s["inj"] = "injected" in e
        tree1 = e.get("dfd_class") == "tree"
        s["d1"] = e.get("dfd_id", 0) if tree1 else 0
        s["n1"] = e.get("path", "")
        if nr == "readlinkat" and tree1 and e.get("path") == "" and e.get("ret", -1) >= 0:
            last_readlink[who] = e.get("dfd_id", 0)
        if nr in ("openat", "open"):
            fl = e.get("flags", 0)
            if e.get("r_new") and e.get("ret", -1) >= 0:
                s.update(nr="creat", rid=e.get("r_id", 0), kind="file")
            elif fl & O["PATH"]:
                continue
            else:
                s.update(nr="opencreat" if fl & O["CREAT"] else "open", rid=e.get("r_id", 0))
            if not tree1 and not e.get("rel"):
                continue
        elif nr == "mkdirat":
            s.update(nr="mkdirat", rid=e.get("new_id", 0), kind="dir")
        elif nr == "mknodat":
            s.update(nr="mknodat", rid=e.get("new_id", 0), kind=KIND_OF_MODE.get(e.get("mode", 0) & S_IFMT, "file"))
        elif nr == "symlinkat":
            s.update(nr="symlinkat", rid=e.get("new_id", 0), kind="lnk", body=split_body(e.get("target")))
        elif nr == "unlinkat":
            s.update(nr="unlinkat", flag="REMOVEDIR" if e.get("flags", 0) & 0x200 else "")
        elif nr in ("renameat", "renameat2"):
            fl = e.get("flags", 0)
            s.update(nr="renameat2", d2=e.get("dfd2_id", 0) if e.get("dfd2_class") == "tree" else 0, n2=e.get("path2", ""),
                     flag="EXCHANGE" if fl & 2 else ("NOREPLACE" if fl & 1 else ""))
        elif nr == "linkat":
            s.update(nr="linkat", d2=e.get("dfd2_id", 0) if e.get("dfd2_class") == "tree" else 0, n2=e.get("path2", ""))
        elif nr in ("mkdir", "rmdir", "unlink", "rename", "link", "symlink", "creat", "mknod", "truncate", "chmod", "chown", "lchown"):
            # path-based mutation (AT_FDCWD): never a legitimate tree operation
            s.update(nr={"mkdir": "mkdirat", "rmdir": "unlinkat", "unlink": "unlinkat", "rename": "renameat2", "link": "linkat",
                         "symlink": "symlinkat"}.get(nr, "mknodat"), d1=0)
        else:
            continue
        if s["ret"] < 0 and s["nr"] in ("creat",):
            continue
        out.append(s)
    sn = snap_event("snap", cid, res["final"])
    if case_spec.get("post"):
        sn["flag"] = "post"
        sn["expectall"] = bool(case_spec.get("expectall"))
        mm = int(case_spec.get("mkmode", 0o755))
        sn["rid"] = (mm & ~int(case_spec.get("umask", 0o022))) if mm >= 0 else -1      # expected mode of created directories (-1: callers differ)
    out.append(sn)
    return out


def run_trace_tlc(module, cfg, events, timeout=900):
    """validate a list of normalised events with TLC; returns dict(report=..., consumed=..., accepted)"""
    wd = workdir()
    tf = os.path.join(wd, "trace-%d.ndjson" % (int(time.time() * 1000000) % 100000000))
    with open(tf, "w") as f:
        for e in events:
            f.write(json.dumps(e) + "\n")
    env = {"TRACE": tf, "JAVA_TOOL_OPTIONS": "-Xss1g -Dtlc2.tool.queue.IStateQueue=StateDeque"}
    r = run_tlc(module, cfg, workers=1, timeout=timeout, env_extra=env, extra=["-Xmx4g"] if False else None)
    os.unlink(tf)
    rep, cons = None, None
    for tag, body in r["prints"]:
        if tag == "REPORT":
            rep = body
        elif tag == "CONSUMED":
            cons = body
    accepted = cons is not None and cons["diameter"] - 1 == cons["lines"]
    return dict(report=rep, consumed=cons, accepted=accepted, tlc=r)


def validate_fs_traces(results, specs, chunk=400):
    """project + validate many traced cases; returns (bad list, kmm list, n_traces, n_events, states)"""
    bad, kmm, n_tr, n_ev, states = [], [], 0, 0, 0
    batch, nb = [], 0
    pending = []

    def flush():
        nonlocal batch, bad, kmm, n_ev, states
        if not batch:
            return
        r = run_trace_tlc("TraceFS.tla", "TraceFS.cfg", batch)
        if not r["accepted"] or r["report"] is None:
            raise ToolError("trace validation did not consume the trace: %s\n%s" % (r["consumed"], r["tlc"]["out"][-2500:]))
        bad += r["report"]["bad"]
        kmm += r["report"]["kmm"]
        n_ev += len(batch)
        states += r["tlc"]["distinct"]
        batch = []

    for res, spec in zip(results, specs):
        if res.get("error"):
            continue
        if res.get("status") != "ok" and len(res.get("events", [])) > 4000:
            # a run that did not end by itself (killed after its time limit, e.g. an endless loop in the code under test):
            # a prefix of its trace is still a real execution prefix; the abnormal end itself is reported by the caller
            res = dict(res, events=res["events"][:4000])
        batch += project_fs(res, spec)
        n_tr += 1
        nb += 1
        if nb % chunk == 0:
            flush()
    flush()
    return bad, kmm, n_tr, n_ev, states


# ------------------------------------------------------------------------------ raw projection

def blank_raw(ev, case):
    return dict(ev=ev, case=case, op="", nr="", dfd=-1, dclass="", d2class="", path="", path2="", flags=0, resolve=0, ret=0,
                fd=-1, newfd=-1, cmd=0, intree=False, lent=[], opened=[], closed=[], changed=[], retfd=-1, wpid="", traced=False, reqnf=False)


def project_raw(res, case_spec):
    """pv result -> TraceDiscipline events (begin / sys* / end per library call)"""
    cid = str(res.get("id"))
    calls = case_spec.get("calls", [])
    traced = bool(case_spec.get("trace"))
    results = {}
    for o in res.get("out", []):
        for i, r in enumerate(o.get("results") or []):
            if r is not None and not r.get("skip"):
                results[i] = r
    out = []
    per_call = {}
    for e in res.get("events", []):
        if e.get("ev") == "sys" and "call" in e:
            per_call.setdefault(e["call"], []).append(e)
    for j, c in enumerate(calls):
        r = results.get(j)
        if r is None or c.get("op") == "kopen":
            continue
        b = blank_raw("begin", cid)
        b["op"] = c.get("op", "")
        b["lent"] = [x for x in r.get("lent", []) if x is not None and x >= 0]
        out.append(b)
        for e in per_call.get(j, []):
            s = blank_raw("sys", cid)
            s["op"] = c.get("op", "")
            # did the caller of a procfs open pass O_NOFOLLOW?  (then no link at all may be followed on its behalf)
            s["reqnf"] = c.get("op") in ("proc_open", "proc_open_follow") and bool((c.get("oflags") or 0) & O["NOFOLLOW"])
            s["nr"] = e["nr"]
            if "dfd" in e:
                s["dfd"] = e["dfd"]
                s["dclass"] = e.get("dfd_class", "")
            elif "fd" in e:
                s["fd"] = e["fd"] if isinstance(e["fd"], int) else -1
                s["dclass"] = "fd"
                fdcls = e.get("fd_class", "")
            s["d2class"] = e.get("dfd2_class", "")
            s["path"] = e.get("path", "") or ""
            s["path2"] = e.get("path2", "") or ""
            if s["path"] == "<NULL>":
                s["path"] = ""
            fl = e.get("flags", 0)
            s["flags"] = fl if isinstance(fl, int) and fl >= 0 else 0
            s["resolve"] = e.get("resolve", 0)
            s["ret"] = e.get("ret", 0)
            s["newfd"] = e.get("newfd", -1)
            s["cmd"] = e.get("cmd", 0) if isinstance(e.get("cmd", 0), int) else 0
            s["intree"] = bool(e.get("rel")) and "dfd" in e and e.get("dfd_class") not in ("tree", "proc")
            if "injected" in e:
                s["ret"] = -int(e["injected"])
            out.append(s)
        en = blank_raw("end", cid)
        en["op"] = c.get("op", "")
        en["traced"] = traced
        en["retfd"] = r.get("fd", -1) if r.get("ok") and isinstance(r.get("fd"), int) else -1
        en["opened"] = [[x["fd"], bool(x.get("cloexec")), bool(x.get("procroot"))] for x in r.get("fds_opened", [])]
        en["closed"] = [x["fd"] for x in r.get("fds_closed", [])]
        en["changed"] = [x["fd"] for x in r.get("fds_changed", [])]
        en["wpid"] = str(r.get("wuid") or r.get("wpid", 0))
        out.append(en)
    return out


def validate_raw_traces(results, specs, chunk=300):
    bad, n_tr, n_ev, states = [], 0, 0, 0
    batch = []

    def flush():
        nonlocal batch, bad, n_ev, states
        if not batch:
            return
        r = run_trace_tlc("TraceDiscipline.tla", "TraceFS.cfg", batch)
        if not r["accepted"] or r["report"] is None:
            raise ToolError("discipline trace validation did not consume the trace: %s\n%s" % (r["consumed"], r["tlc"]["out"][-2500:]))
        bad += r["report"]["bad"]
        n_ev += len(batch)
        states += r["tlc"]["distinct"]
        batch = []

    for k, (res, spec) in enumerate(zip(results, specs)):
        if res.get("error"):
            continue
        batch += project_raw(res, spec)
        n_tr += 1
        if len(batch) > 20000:
            flush()
    flush()
    return bad, n_tr, n_ev, states


# ------------------------------------------------------------------ Lookup.tla action-level traces

def expand_hostparent(path, res, case_spec):
    """the harness expands "@HOSTPARENT" to the chain of directory names of a `mirror` node; recover it from the initial snapshot"""
    if "@HOSTPARENT" not in (path or ""):
        return path
    mid = next((n["id"] for n in case_spec.get("tree", []) if n.get("k") == "mirror"), None)
    up = {d["c"]: (d["p"], d["n"]) for d in res["init"]["dents"]}
    names, cur = [], mid
    while cur in up and cur != 2 and len(names) < 64:
        names.append(up[cur][1])
        cur = up[cur][0]
    return path.replace("@HOSTPARENT", "/".join(reversed(names)))


def may_not_search(snap, euids):
    """directories a caller with effective uid `euid` (effective gid 0) may not search"""
    euids = {e for e in euids if e is not None}
    if len(euids) != 1 or euids == {0}:
        return []
    euid = euids.pop()
    out = []
    for i in snap["inodes"]:
        if i.get("k") != "dir":
            continue
        mode, uid = i.get("mode", 0o755), i.get("uid", 0)
        x = (mode & 0o100) if uid == euid else ((mode & 0o010) if uid == 0 else (mode & 0o001))
        if not x:
            out.append(i["id"])
    return sorted(out)


def project_lookup(res, case_spec, scratch_prefix=None):
    """relevant syscalls of an emulated resolve -> TraceLookup events"""
    cid = str(res.get("id"))
    calls = case_spec.get("calls", [])
    out = [snap_event("init", cid, res["init"])]
    out[0]["denied"] = may_not_search(res["init"], {c.get("euid") for c in case_spec.get("calls", [])})
    results = (res.get("out") or [{}])[0].get("results") or []
    cur = None
    for e in res.get("events", []):
        if e["ev"] == "mark":
            tag = e["tag"]
            if tag.startswith("BEGIN "):
                cur = int(tag.split()[1])
                b = blank("begin", cid)
                cc = calls[cur]
                b["body"] = (expand_hostparent(cc.get("path") or "", res, case_spec)).split("/")
                b["op"] = cc.get("op")
                fl = cc.get("oflags", 0)
                nof = bool(cc.get("nofollow")) or cc.get("op") == "readlink" or bool(fl & O["NOFOLLOW"])
                b["flag"] = "nofollow" if nof else ""
                b["n2"] = "nosym" if cc.get("nosym") else ""
                b["kind"] = "PATH" if (cc.get("op") != "open" or fl & O["PATH"]) else "RDONLY"
                b["inj"] = bool(cc.get("op") == "open" and fl & O["DIRECTORY"])
                b["d2"] = 1 if case_spec.get("feat", {}).get("openat2", True) else 0      # backend: 1 = openat2
                out.append(b)
            elif tag == "END" and cur is not None:
                en = blank("end", cid)
                r = results[cur] if cur < len(results) else {}
                o = lib_outcome(r)
                en["ret"] = 0 if o[0] in ("ok", "body") else -1
                en["rid"] = r.get("id") or 0
                if o[0] == "body":
                    en["body"] = split_body(o[1])
                en["flag"] = str(o[1]) if o[0] == "err" and (str(o[1]).startswith("E") or o[1] == "SAFETY") else ""
                out.append(en)
                cur = None
            continue
        if e["ev"] == "att":
            a = project_fs(dict(res, events=[e], out=[]), dict(calls=[]))
            out += [x for x in a if x["ev"] == "att"]
            continue
        if e["ev"] != "sys" or cur is None or not e.get("rel"):
            continue
        s = blank("sys", cid)
        s["ret"] = e.get("ret", 0)
        nr = e["nr"]
        if nr == "openat" and e.get("dfd_class") == "tree":
            s.update(nr="openat", d1=e.get("dfd_id", 0), n1=e.get("path", ""), rid=e.get("r_id", 0))
        elif nr == "openat2" and e.get("dfd_class") == "tree":
            s.update(nr="openat2", d1=e.get("dfd_id", 0), body=(e.get("path") or "").split("/"), rid=e.get("r_id", 0),
                     flag=ERRNO.get(-e["ret"], str(-e["ret"])) if e.get("ret", 0) < 0 else "")
        elif nr == "newfstatat" and e.get("dfd_class") == "tree" and e.get("path") == "":
            s.update(nr="fstat", d1=e.get("dfd_id", 0))
        elif nr == "readlinkat" and e.get("dfd_class") == "tree":
            s.update(nr="readlink", d1=e.get("dfd_id", 0), body=split_body(e.get("body")))
        elif nr == "readlinkat" and e.get("dfd_class") == "proc":
            txt = e.get("body") or ""
            if not txt.startswith("/"):
                continue      # an ordinary procfs symlink (thread-self -> <pid>/task/<tid>) walked by the emulated procfs resolver, not a d_path read
            if txt.endswith(" (deleted)"):
                comps = ["(deleted)"]
            else:
                # strip everything up to and including the scratch case directory (the root's parent)
                m = re.search(r"/c\d+(/.*)?$", txt)
                rel = (m.group(1) or "") if m else txt
                comps = [c for c in rel.split("/") if c]
            s.update(nr="dpath", body=comps)
        else:
            continue
        out.append(s)
    out.append(snap_event("snap", cid, res["final"]))
    return out


def validate_lookup_trace(res, case_spec):
    """returns (accepted, consumed_lines, total_lines, first_unmatched_event)"""
    evs = project_lookup(res, case_spec)
    r = run_trace_tlc("MC_TraceLookup.tla", "TraceLookup.cfg", evs, timeout=300)
    cons = r["consumed"]
    if cons is None:
        return None, 0, len(evs), None, r
    ok = cons["diameter"] == cons["lines"] + 1 and not r["tlc"]["violated"]
    first = evs[cons["diameter"] - 1] if 0 < cons["diameter"] <= len(evs) else None
    return ok, cons["diameter"], cons["lines"], first, r


def lookup_conformance(cases, results, max_cases=None, rnd=None):
    """validate many emulated `resolve` traces against Lookup.tla in batched TLC runs; a rejected
    trace (model drift) is recorded with its first unmatched event and skipped"""
    todo = [(c, r) for c, r in zip(cases, results)
            if len(c.get("calls", [])) == 1 and c["calls"][0].get("op") in ("resolve", "open", "readlink") and set(c.get("feat", {})) <= {"openat2"}
            and r.get("status") == "ok" and c.get("procs", 1) == 1]
    if max_cases and len(todo) > max_cases:
        if rnd:
            rnd.shuffle(todo)
        todo = todo[:max_cases]
    accepted, drift, states, nev = 0, [], 0, 0
    B = 150
    i = 0
    while i < len(todo):
        chunk = todo[i:i + B]
        spans, evs = [], []
        for c, r in chunk:
            e = project_lookup(r, c)
            spans.append((len(evs), len(evs) + len(e), c))
            evs += e
        r = run_trace_tlc("MC_TraceLookup.tla", "TraceLookup.cfg", evs, timeout=600)
        cons = r["consumed"]
        states += r["tlc"]["distinct"]
        if cons is None:
            raise ToolError("TraceLookup run failed: %s" % r["tlc"]["out"][-1500:])
        reached = cons["diameter"]            # furthest line index reached (1-based next line)
        if r["tlc"]["violated"]:
            drift.append(dict(case="?", what="invariant %s violated on the model state driven by the real trace" % r["tlc"]["violated"]))
        if reached >= len(evs) + 1:
            accepted += len(chunk)
            nev += len(evs)
            i += B
            continue
        # the case containing line `reached` is the drifting one
        bad_idx = next((k for k, (a, b, c) in enumerate(spans) if a < reached <= b), len(spans) - 1)
        a, b, c = spans[bad_idx]
        accepted += bad_idx
        nev += a
        drift.append(dict(case=c["id"], call=c["calls"][0], sched=c.get("sched"), first_unmatched={k: v for k, v in evs[reached - 1].items() if v not in (0, "", [], False)},
                          at_event=reached - a, of=b - a))
        i += bad_idx + 1
    return dict(validated=accepted + len(drift), accepted=accepted, drift=drift, states=states, events=nev)


# ---------------------------------------------------------------------------------------------
# Mkdir2.tla action-level conformance (kernel backend, one or two processes)
def project_mkdir2(res, case_spec):
    """relevant syscalls of real mkdir_all calls (openat2 backend) -> TraceMkdir2 events"""
    cid = str(res.get("id"))
    calls = case_spec.get("calls", [])
    procs = case_spec.get("procs", 1)
    init = snap_event("init", cid, res["init"])
    by_proc = {}
    for ci, c in enumerate(calls):
        by_proc.setdefault(c.get("proc", 0), []).append((ci, c))
    if any(len(v) != 1 for v in by_proc.values()) or sorted(by_proc) != list(range(procs)):
        return None
    init["paths"] = [by_proc[pi][0][1]["path"].split("/") for pi in range(procs)]
    ids = [i["id"] for i in res["init"]["inodes"]]
    init["rid"] = max(ids + [4]) + 1
    emulated = not case_spec.get("feat", {}).get("openat2", True)
    if emulated and procs != 1:
        return None
    init["d2"] = 0 if emulated else 1
    out = [init]
    outs = res.get("out") or []
    for e in res.get("events", []):
        who = e.get("who", 0)
        if e["ev"] == "mark":
            if e["tag"] == "DONE":
                ci = by_proc[who][0][0]
                r = ((outs[who] if who < len(outs) else {}).get("results") or [])
                r = r[ci] if ci < len(r) else {}
                en = blank("end", cid)
                en["who"] = who
                o = lib_outcome(r)
                en["ret"] = 0 if o[0] == "ok" else -1
                en["rid"] = (r.get("id") or 0) if o[0] == "ok" else 0
                en["flag"] = "" if o[0] == "ok" else str(o[1])
                out.append(en)
            continue
        if e["ev"] == "att":
            return None
        if e["ev"] != "sys" or not e.get("rel") or e.get("call") is None:
            continue
        s = blank("sys", cid)
        s["who"] = who
        s["ret"] = e.get("ret", 0)
        s["flag"] = ERRNO.get(-e["ret"], str(-e["ret"])) if e.get("ret", 0) < 0 else ""
        nr = e["nr"]
        if nr == "openat2" and e.get("dfd_class") == "tree":
            s.update(nr="openat2", d1=e.get("dfd_id", 0), body=(e.get("path") or "").split("/"), rid=e.get("r_id", 0))
        elif nr == "mkdirat" and e.get("dfd_class") == "tree":
            s.update(nr="mkdirat", d1=e.get("dfd_id", 0), n1=e.get("path", ""), rid=e.get("new_id", 0))
        elif nr == "openat" and e.get("dfd_class") == "tree":
            s.update(nr="openat", d1=e.get("dfd_id", 0), n1=e.get("path", ""), rid=e.get("r_id", 0))
        elif nr in ("newfstatat", "statx", "fstat") and e.get("path", "") == "":
            s.update(nr="fstat", d1=e.get("dfd_id", 0))
        elif nr == "readlinkat" and e.get("dfd_class") == "proc":
            s.update(nr="dpath")
        elif nr == "readlinkat" and e.get("dfd_class") == "tree":
            s.update(nr="readlink", d1=e.get("dfd_id", 0))
        else:
            continue
        out.append(s)
    out.append(snap_event("snap", cid, res["final"]))
    return out


def may_not_delete(snap, euids):
    """(directories in which the caller may not remove entries, entries pinned by a sticky directory) for a caller with
    effective uid `euid`, effective gid 0 (the harness only switches the uid) -- may_delete() of the kernel"""
    euids = {e for e in euids if e is not None}
    if not euids or euids == {0}:
        return [], []
    if len(euids) != 1:
        return [], []
    euid = euids.pop()
    ino = {i["id"]: i for i in snap["inodes"]}
    denied, pinned = [], []
    for i in snap["inodes"]:
        if i.get("k") != "dir":
            continue
        mode, uid = i.get("mode", 0o755), i.get("uid", 0)
        gid = uid                               # the tree builder chowns to uid:uid
        w = (mode & 0o200) if uid == euid else ((mode & 0o020) if gid == 0 else (mode & 0o002))
        x = (mode & 0o100) if uid == euid else ((mode & 0o010) if gid == 0 else (mode & 0o001))
        if not (w and x):
            denied.append(i["id"])
        elif (mode & 0o1000) and uid != euid:
            for d in snap["dents"]:
                if d["p"] == i["id"] and ino.get(d["c"], {}).get("uid", 0) != euid:
                    pinned.append(d["c"])
    return sorted(denied), sorted(set(pinned))


def project_remove2(res, case_spec):
    """relevant syscalls of real remove_all calls (any backend; the in-root resolution of the parent is skipped) -> TraceRemove2 events"""
    cid = str(res.get("id"))
    calls = case_spec.get("calls", [])
    procs = case_spec.get("procs", 1)
    by_proc = {}
    for ci, c in enumerate(calls):
        by_proc.setdefault(c.get("proc", 0), []).append((ci, c))
    if any(len(v) != 1 for v in by_proc.values()) or sorted(by_proc) != list(range(procs)):
        return None
    init = snap_event("init", cid, res["init"])
    init["denied"], init["pinned"] = may_not_delete(res["init"], {c.get("euid") for c in calls})
    frames, started, fresh = {}, set(), set()
    out = [init]
    outs = res.get("out") or []
    for e in res.get("events", []):
        who = e.get("who", 0)
        if e["ev"] == "mark":
            if e["tag"] == "DONE" or (procs == 1 and e["tag"] == "END" and who in started):
                if who in frames and frames[who] == "ended":
                    continue
                ci = by_proc[who][0][0]
                r = ((outs[who] if who < len(outs) else {}).get("results") or [])
                r = r[ci] if ci < len(r) else {}
                en = blank("end", cid)
                en["who"] = who
                o = lib_outcome(r)
                en["ret"] = 0 if o[0] == "ok" else -1
                en["kind"] = "" if o[0] == "ok" else str(o[1])
                if who not in frames:
                    return None           # the parent directory did not resolve: nothing of remove_all ran
                out.append(en)
                frames[who] = "ended" if False else frames[who]
                started.add(("ended", who))
            continue
        if e["ev"] == "att":
            a = project_fs(dict(res, events=[e], out=[]), dict(calls=[]))
            out += [x for x in a if x["ev"] == "att"]
            continue
        if e["ev"] != "sys" or not e.get("rel") or e.get("call") is None:
            continue
        if ("ended", who) in started:
            continue
        nr = e["nr"]
        if who not in frames:
            if nr != "unlinkat":
                continue                  # still resolving the parent directory
            name = (by_proc[who][0][1].get("path") or "").split("/")[-1]
            if name in ("", ".", "..") or name != e.get("path"):
                return None
            frames[who] = [e.get("dfd_id", 0), name]
            started.add(who)
        s = blank("sys", cid)
        s["who"] = who
        s["ret"] = e.get("ret", 0)
        s["kind"] = ERRNO.get(-e["ret"], str(-e["ret"])) if e.get("ret", 0) < 0 else ""
        if nr == "unlinkat":
            s.update(nr="unlinkat", d1=e.get("dfd_id", 0), n1=e.get("path", ""), flag="REMOVEDIR" if e.get("flags", 0) & 0x200 else "")
        elif nr == "openat" and e.get("dfd_class") == "tree":
            s.update(nr="openat", d1=e.get("dfd_id", 0), n1=e.get("path", ""), rid=e.get("r_id", 0))
            if e.get("path") == "." and e.get("ret", -1) >= 0:
                fresh.add(who)        # Dir::read_from: a fresh iteration handle; the next getdents is the listing
        elif nr == "getdents64":
            names = [n for n in (e.get("names") or []) if n not in (".", "..")]
            # the first getdents of a fresh iterator is the listing (ENOENT on a removed directory = empty: rustix
            # ends the iteration); later ones only find the end of the directory
            if who in fresh:
                fresh.discard(who)
                s.update(nr="getdents", d1=e.get("fd_id", 0), body=names, flag="names")
            else:
                if names:
                    return None       # a listing that needs several getdents batches: outside the model's one-batch scan
                s.update(nr="getdents", d1=e.get("fd_id", 0), body=names, flag="end")
        else:
            continue
        out.append(s)
    if sorted(k for k in frames) != list(range(procs)):
        return None
    init["frames"] = [frames[pi] for pi in range(procs)]
    out.append(snap_event("snap", cid, res["final"]))
    return out


def trace_conformance(module, cfg, project, todo, batch=100, timeout=600):
    """validate many recorded cases against a trace specification in batched TLC runs (progress
    register protocol of TraceLookup); a rejected trace is recorded with its first unmatched event"""
    accepted, drift, states, nev, inv = 0, [], 0, 0, []
    todo = [(c, r, project(r, c)) for c, r in todo]
    todo = [t for t in todo if t[2]]
    i = 0
    while i < len(todo):
        chunk = todo[i:i + batch]
        spans, evs = [], []
        for c, r, e in chunk:
            spans.append((len(evs), len(evs) + len(e), c))
            evs += e
        r = run_trace_tlc(module, cfg, evs, timeout=timeout)
        cons = r["consumed"]
        states += r["tlc"]["distinct"]
        if cons is None and not r["tlc"]["violated"]:
            raise ToolError("%s run failed: %s" % (module, r["tlc"]["out"][-1500:]))
        if r["tlc"]["violated"]:
            # an invariant failed on the model state driven by a real trace: locate the case by bisection
            if len(chunk) == 1:
                inv.append(dict(case=chunk[0][0]["id"], invariant=r["tlc"]["violated"], meta=chunk[0][0].get("meta")))
                i += 1
            else:
                h = max(1, len(chunk) // 2)
                sub = trace_conformance(module, cfg, lambda rr, cc: project(rr, cc), [(c, rr) for c, rr, _ in chunk[:h]], batch=h, timeout=timeout)
                sub2 = trace_conformance(module, cfg, lambda rr, cc: project(rr, cc), [(c, rr) for c, rr, _ in chunk[h:]], batch=len(chunk) - h, timeout=timeout)
                for s_ in (sub, sub2):
                    accepted += s_["accepted"]; drift += s_["drift"]; inv += s_["invariant_violations"]; states += s_["states"]; nev += s_["events"]
                i += len(chunk)
            continue
        reached = cons["diameter"]
        if reached >= len(evs) + 1:
            accepted += len(chunk)
            nev += len(evs)
            i += len(chunk)
            continue
        bad_idx = next((k for k, (a, b, c) in enumerate(spans) if a < reached <= b), len(spans) - 1)
        a, b, c = spans[bad_idx]
        accepted += bad_idx
        nev += a
        drift.append(dict(case=c["id"], meta=c.get("meta"), first_unmatched={k: v for k, v in evs[reached - 1].items() if v not in (0, "", [], False) and k not in ("dents", "inodes")},
                          at_event=reached - a, of=b - a))
        i += bad_idx + 1
    return dict(validated=accepted + len(drift) + len(inv), accepted=accepted, drift=drift, invariant_violations=inv, states=states, events=nev)
