//! The supervisor: builds scratch trees, drives workers (plain or under ptrace), applies
//! attacker schedules and fault injections at syscall boundaries, records traces.

use crate::tree::{cstr, errno, Node, Scratch};
use serde_json::{json, Value};
use std::collections::HashMap;
use std::io::Write;
use std::path::{Path, PathBuf};

// ---------------------------------------------------------------------------------------------
// syscall table (x86_64)

pub fn sys_name(nr: i64) -> &'static str {
    match nr {
        0 => "read", 1 => "write", 2 => "open", 3 => "close", 4 => "stat", 5 => "fstat", 6 => "lstat",
        8 => "lseek", 9 => "mmap", 10 => "mprotect", 11 => "munmap", 12 => "brk", 13 => "rt_sigaction",
        14 => "rt_sigprocmask", 16 => "ioctl", 17 => "pread64", 21 => "access", 28 => "madvise",
        32 => "dup", 33 => "dup2", 39 => "getpid", 72 => "fcntl", 76 => "truncate", 77 => "ftruncate",
        78 => "getdents", 79 => "getcwd", 80 => "chdir", 81 => "fchdir", 82 => "rename", 83 => "mkdir",
        84 => "rmdir", 85 => "creat", 86 => "link", 87 => "unlink", 88 => "symlink", 89 => "readlink",
        90 => "chmod", 91 => "fchmod", 92 => "chown", 93 => "fchown", 94 => "lchown", 102 => "getuid",
        104 => "getgid", 107 => "geteuid", 108 => "getegid", 131 => "sigaltstack", 133 => "mknod",
        137 => "statfs", 138 => "fstatfs", 157 => "prctl", 165 => "mount", 166 => "umount2",
        186 => "gettid", 202 => "futex", 217 => "getdents64", 228 => "clock_gettime", 231 => "exit_group",
        257 => "openat", 258 => "mkdirat", 259 => "mknodat", 260 => "fchownat", 262 => "newfstatat",
        263 => "unlinkat", 264 => "renameat", 265 => "linkat", 266 => "symlinkat", 267 => "readlinkat",
        268 => "fchmodat", 269 => "faccessat", 280 => "utimensat", 285 => "fallocate", 292 => "dup3",
        316 => "renameat2", 318 => "getrandom", 332 => "statx", 334 => "rseq", 428 => "open_tree",
        429 => "move_mount", 430 => "fsopen", 431 => "fsconfig", 432 => "fsmount", 433 => "fspick",
        436 => "close_range", 437 => "openat2", 439 => "faccessat2", 452 => "fchmodat2",
        _ => "other",
    }
}

/// syscalls into which faults are injected (file-related calls; memory management, futex,
/// signal plumbing, close and our own marker/pipe traffic are not "system calls made during a
/// libpathrs operation" in the sense of the property)
pub fn injectable(name: &str) -> bool {
    matches!(
        name,
        "openat" | "openat2" | "open" | "newfstatat" | "fstat" | "stat" | "lstat" | "statx" | "readlinkat" | "readlink"
            | "mkdirat" | "mknodat" | "unlinkat" | "renameat" | "renameat2" | "linkat" | "symlinkat" | "fcntl"
            | "getdents64" | "fstatfs" | "faccessat" | "faccessat2" | "fsopen" | "fsconfig" | "fsmount" | "open_tree"
            | "dup" | "dup3" | "read" | "access" | "statfs"
    )
}

fn fd_creating(name: &str, a: &[u64; 6]) -> bool {
    match name {
        "openat" | "openat2" | "open" | "fsopen" | "fsmount" | "open_tree" | "dup" | "dup3" => true,
        "fcntl" => a[1] == libc::F_DUPFD as u64 || a[1] == libc::F_DUPFD_CLOEXEC as u64,
        _ => false,
    }
}

// ---------------------------------------------------------------------------------------------
// process helpers

fn read_cstring(pid: i32, addr: u64) -> String {
    if addr == 0 {
        return String::from("<NULL>");
    }
    let mut buf = vec![0u8; 4200];
    let local = libc::iovec { iov_base: buf.as_mut_ptr() as *mut _, iov_len: buf.len() };
    // read page-wise so that an unmapped following page does not fail the whole read
    let mut out: Vec<u8> = Vec::new();
    let mut cur = addr;
    let _ = local;
    loop {
        let page_left = 4096 - (cur % 4096) as usize;
        let want = std::cmp::min(page_left, buf.len());
        let l = libc::iovec { iov_base: buf.as_mut_ptr() as *mut _, iov_len: want };
        let r = libc::iovec { iov_base: cur as *mut _, iov_len: want };
        let n = unsafe { libc::process_vm_readv(pid, &l, 1, &r, 1, 0) };
        if n <= 0 {
            break;
        }
        let n = n as usize;
        if let Some(pos) = buf[..n].iter().position(|b| *b == 0) {
            out.extend_from_slice(&buf[..pos]);
            return String::from_utf8_lossy(&out).to_string();
        }
        out.extend_from_slice(&buf[..n]);
        cur += n as u64;
        if out.len() > 8192 {
            break;
        }
    }
    String::from_utf8_lossy(&out).to_string()
}

fn read_bytes(pid: i32, addr: u64, len: usize) -> Vec<u8> {
    let mut buf = vec![0u8; len];
    let l = libc::iovec { iov_base: buf.as_mut_ptr() as *mut _, iov_len: len };
    let r = libc::iovec { iov_base: addr as *mut _, iov_len: len };
    let n = unsafe { libc::process_vm_readv(pid, &l, 1, &r, 1, 0) };
    if n <= 0 {
        return Vec::new();
    }
    buf.truncate(n as usize);
    buf
}

#[derive(Clone, Debug)]
pub struct FdInfo {
    pub class: &'static str, // tree | proc | other | bad | cwd
    pub id: u32,
    pub ft: &'static str,
    pub dev: u64,
    pub ino: u64,
}

/// What does descriptor `fd` of process `pid` refer to (as seen right now)?
fn classify_fd(pid: i32, fd: i64, scratch: &Scratch) -> FdInfo {
    if fd == libc::AT_FDCWD as i64 {
        return FdInfo { class: "cwd", id: 0, ft: "dir", dev: 0, ino: 0 };
    }
    if fd < 0 {
        return FdInfo { class: "bad", id: 0, ft: "", dev: 0, ino: 0 };
    }
    let p = format!("/proc/{}/fd/{}", pid, fd);
    let c = cstr(&p);
    let mut st: libc::stat = unsafe { std::mem::zeroed() };
    if unsafe { libc::stat(c.as_ptr(), &mut st) } != 0 {
        return FdInfo { class: "bad", id: 0, ft: "", dev: 0, ino: 0 };
    }
    let ft = crate::tree::kind_of(st.st_mode);
    if st.st_dev == scratch.dev {
        return FdInfo { class: "tree", id: scratch.id_of(st.st_dev, st.st_ino), ft, dev: st.st_dev, ino: st.st_ino };
    }
    let mut sfs: libc::statfs = unsafe { std::mem::zeroed() };
    let class = if unsafe { libc::statfs(c.as_ptr(), &mut sfs) } == 0 && sfs.f_type as i64 == 0x9fa0 { "proc" } else { "other" };
    FdInfo { class, id: 0, ft, dev: st.st_dev, ino: st.st_ino }
}

// ---------------------------------------------------------------------------------------------
// worker processes

pub struct Worker {
    pub pid: i32,
    pub req: std::fs::File,
    pub resp: std::io::BufReader<std::fs::File>,
    pub traced: bool,
    // ptrace state
    pending_entry: Option<Entry>,
    in_call: Option<usize>,
    sys_idx: usize,
    rel_idx: usize,
    inj_idx: usize,
    pub dead: bool,
    pub who: usize,
    pub exit_status: Option<i32>,
}

#[derive(Clone, Debug)]
struct Entry {
    nr: i64,
    name: &'static str,
    a: [u64; 6],
    relevant: bool,
    ev: Value,
}

pub enum Stop {
    Marker(String),
    Relevant,
    Exited(i32),
    Hang,
}

static mut ALARMED: bool = false;
extern "C" fn on_alarm(_: i32) {
    unsafe { ALARMED = true };
}

pub fn install_alarm() {
    unsafe {
        let mut sa: libc::sigaction = std::mem::zeroed();
        sa.sa_sigaction = on_alarm as usize;
        sa.sa_flags = 0; // no SA_RESTART: waitpid/read return EINTR
        libc::sigaction(libc::SIGALRM, &sa, std::ptr::null_mut());
    }
}

pub fn spawn_worker(feat: &Value, traced: bool) -> Worker {
    let mut reqp = [0i32; 2];
    let mut respp = [0i32; 2];
    unsafe {
        libc::pipe2(reqp.as_mut_ptr(), libc::O_CLOEXEC);
        libc::pipe2(respp.as_mut_ptr(), libc::O_CLOEXEC);
    }
    let pid = unsafe { libc::fork() };
    if pid == 0 {
        unsafe {
            libc::close(reqp[1]);
            libc::close(respp[0]);
            // keep the worker's descriptor table small and predictable: req/resp moved high
            let r = libc::fcntl(reqp[0], libc::F_DUPFD_CLOEXEC, 300);
            let w = libc::fcntl(respp[1], libc::F_DUPFD_CLOEXEC, 301);
            libc::close(reqp[0]);
            libc::close(respp[1]);
            // close everything else above stderr except our two pipes
            libc::syscall(libc::SYS_close_range, 3u32, (r - 1) as u32, 0u32);
            libc::syscall(libc::SYS_close_range, (w + 1) as u32, u32::MAX, 0u32);
            libc::prctl(libc::PR_SET_PDEATHSIG, libc::SIGKILL);
            if traced {
                libc::ptrace(libc::PTRACE_TRACEME, 0, 0, 0);
                libc::raise(libc::SIGSTOP);
            }
            crate::worker::worker_main(r, w, feat);
        }
    }
    unsafe {
        libc::close(reqp[0]);
        libc::close(respp[1]);
    }
    use std::os::unix::io::FromRawFd;
    let req = unsafe { std::fs::File::from_raw_fd(reqp[1]) };
    let resp = std::io::BufReader::new(unsafe { std::fs::File::from_raw_fd(respp[0]) });
    let mut w = Worker { pid, req, resp, traced, pending_entry: None, in_call: None, sys_idx: 0, rel_idx: 0, inj_idx: 0, dead: false, who: 0, exit_status: None };
    if traced {
        let mut status = 0;
        unsafe { libc::waitpid(pid, &mut status, 0) };
        unsafe {
            libc::ptrace(
                libc::PTRACE_SETOPTIONS,
                pid,
                0,
                (libc::PTRACE_O_TRACESYSGOOD | libc::PTRACE_O_EXITKILL) as usize,
            );
        }
        w.pending_entry = None;
    }
    w
}

impl Drop for Worker {
    fn drop(&mut self) {
        if !self.dead {
            unsafe {
                libc::kill(self.pid, libc::SIGKILL);
                let mut st = 0;
                libc::waitpid(self.pid, &mut st, 0);
            }
        }
    }
}

#[derive(Default, Clone)]
pub struct Plan {
    /// attacker actions before the k-th relevant syscall of call j: (call, k) -> actions
    pub sched: HashMap<(usize, usize), Vec<Value>>,
    /// single faults: (call, injectable index i) -> errno
    pub faults: HashMap<(usize, usize), i32>,
    /// sequence faults: every occurrence of syscall `nr` (first `count` of them) gets errno
    pub seq: Vec<(String, i32, usize, usize, String)>,
    /// fd exhaustion: every fd-creating syscall from injectable index `from` on fails with errno
    pub exhaust: Option<(usize, usize, i32)>,
    /// bits cleared from the request mask of every statx(2) of the tracee (emulates kernels that do not know them,
    /// e.g. 0x4000 = STATX_MNT_ID_UNIQUE: Linux 5.8 - 6.7 report only the classic STATX_MNT_ID)
    pub statx_clear: u64,
}

pub struct Recorder<'a> {
    pub scratch: &'a mut Scratch,
    pub events: Vec<Value>,
    pub plan: Plan,
    pub seq_used: Vec<usize>,
    pub record_raw: bool,
    /// procfs-relative lookups count as relevant syscalls (racing-mount schedules)
    pub proc_relevant: bool,
}

impl Worker {
    fn regs(&self) -> libc::user_regs_struct {
        let mut regs: libc::user_regs_struct = unsafe { std::mem::zeroed() };
        unsafe { libc::ptrace(libc::PTRACE_GETREGS, self.pid, 0, &mut regs as *mut _) };
        regs
    }
    fn setregs(&self, regs: &libc::user_regs_struct) {
        unsafe { libc::ptrace(libc::PTRACE_SETREGS, self.pid, 0, regs as *const _) };
    }

    /// resume until the next syscall stop; returns None if the tracee is gone / hung
    fn next_stop(&mut self) -> Option<()> {
        let mut sig: usize = 0;
        loop {
            unsafe { libc::ptrace(libc::PTRACE_SYSCALL, self.pid, 0, sig) };
            let mut status = 0;
            let r = unsafe { libc::waitpid(self.pid, &mut status, 0) };
            if r < 0 {
                if errno() == libc::EINTR && unsafe { ALARMED } {
                    return None;
                }
                if errno() == libc::EINTR {
                    continue;
                }
                self.dead = true;
                return None;
            }
            if libc::WIFEXITED(status) || libc::WIFSIGNALED(status) {
                self.dead = true;
                self.exit_status = Some(status);
                return None;
            }
            if libc::WIFSTOPPED(status) {
                let s = libc::WSTOPSIG(status);
                if s == (libc::SIGTRAP | 0x80) {
                    return Some(());
                }
                // a real signal: forward it (SIGSTOP from attach is swallowed)
                sig = if s == libc::SIGSTOP || s == libc::SIGTRAP { 0 } else { s as usize };
                continue;
            }
        }
    }

    fn decode_entry(&self, rec: &Recorder) -> Entry {
        let regs = self.regs();
        let nr = regs.orig_rax as i64;
        let a = [regs.rdi, regs.rsi, regs.rdx, regs.r10, regs.r8, regs.r9];
        let name = sys_name(nr);
        let pid = self.pid;
        let sc = &*rec.scratch;
        let mut ev = json!({"nr": name});
        let mut relevant = false;
        let dirfd_ev = |ev: &mut Value, key: &str, fd: i64| -> FdInfo {
            let info = classify_fd(pid, fd, sc);
            ev[key] = json!(fd);
            ev[format!("{key}_class")] = json!(info.class);
            ev[format!("{key}_id")] = json!(info.id);
            ev[format!("{key}_ft")] = json!(info.ft);
            info
        };
        match name {
            "openat" | "mkdirat" | "mknodat" | "unlinkat" | "newfstatat" | "readlinkat" | "faccessat" | "faccessat2" | "statx" | "fchmodat"
            | "fchownat" | "utimensat" | "open_tree" | "fchmodat2" => {
                let info = dirfd_ev(&mut ev, "dfd", a[0] as i32 as i64);
                let path = read_cstring(pid, a[1]);
                ev["path"] = json!(path);
                match name {
                    "openat" => {
                        ev["flags"] = json!(a[2] as i32);
                        ev["mode"] = json!(a[3] as u32);
                    }
                    "mkdirat" => ev["mode"] = json!(a[2] as u32),
                    "mknodat" => {
                        ev["mode"] = json!(a[2] as u32);
                        ev["dev"] = json!(a[3]);
                    }
                    "unlinkat" | "faccessat2" | "open_tree" => ev["flags"] = json!(a[2] as i32),
                    "newfstatat" => ev["flags"] = json!(a[3] as i32),
                    "statx" => {
                        ev["flags"] = json!(a[2] as i32);
                        ev["mask"] = json!(a[3] as u32);
                    }
                    "faccessat" => ev["mode"] = json!(a[2] as i32),
                    _ => {}
                }
                relevant = info.class == "tree" || (name == "readlinkat" && info.class == "proc" && path.is_empty()) || (rec.proc_relevant && info.class == "proc");
                // an absolute path ignores the dirfd: relevant if it points into the scratch area
                if path.starts_with('/') && path.starts_with(&*sc.dir.to_string_lossy()) {
                    relevant = true;
                }
            }
            "openat2" => {
                let info = dirfd_ev(&mut ev, "dfd", a[0] as i32 as i64);
                let path = read_cstring(pid, a[1]);
                ev["path"] = json!(path);
                let how = read_bytes(pid, a[2], std::cmp::min(a[3] as usize, 24));
                if how.len() >= 24 {
                    let f = u64::from_le_bytes(how[0..8].try_into().unwrap());
                    let m = u64::from_le_bytes(how[8..16].try_into().unwrap());
                    let r = u64::from_le_bytes(how[16..24].try_into().unwrap());
                    ev["flags"] = json!(f as i64);
                    ev["mode"] = json!(m);
                    ev["resolve"] = json!(r);
                }
                relevant = info.class == "tree" || (rec.proc_relevant && info.class == "proc");
            }
            "renameat" | "renameat2" | "linkat" => {
                let i1 = dirfd_ev(&mut ev, "dfd", a[0] as i32 as i64);
                ev["path"] = json!(read_cstring(pid, a[1]));
                let i2 = dirfd_ev(&mut ev, "dfd2", a[2] as i32 as i64);
                ev["path2"] = json!(read_cstring(pid, a[3]));
                ev["flags"] = json!(if name == "renameat" { 0 } else { a[4] as i32 });
                relevant = i1.class == "tree" || i2.class == "tree";
            }
            "symlinkat" => {
                ev["target"] = json!(read_cstring(pid, a[0]));
                let info = dirfd_ev(&mut ev, "dfd", a[1] as i32 as i64);
                ev["path"] = json!(read_cstring(pid, a[2]));
                relevant = info.class == "tree";
            }
            "open" | "stat" | "lstat" | "readlink" | "access" | "mkdir" | "rmdir" | "unlink" | "chdir" | "creat" | "mknod" | "chmod" | "chown"
            | "lchown" | "truncate" | "statfs" => {
                let path = read_cstring(pid, a[0]);
                ev["dfd_class"] = json!("cwd");
                ev["dfd"] = json!(libc::AT_FDCWD);
                if name == "open" {
                    ev["flags"] = json!(a[1] as i32);
                }
                relevant = path.starts_with(&*sc.dir.to_string_lossy());
                ev["path"] = json!(path);
            }
            "rename" | "link" | "symlink" => {
                ev["path"] = json!(read_cstring(pid, a[0]));
                ev["path2"] = json!(read_cstring(pid, a[1]));
                ev["dfd_class"] = json!("cwd");
            }
            "fstat" | "fstatfs" | "getdents64" | "close" | "dup" | "fchdir" | "fchmod" | "fchown" | "ftruncate" | "read" | "fsconfig" | "fsmount" => {
                let info = dirfd_ev(&mut ev, "fd", a[0] as i32 as i64);
                if name == "fsconfig" {
                    ev["cmd"] = json!(a[1] as u32);
                    ev["key"] = json!(if a[2] != 0 { read_cstring(pid, a[2]) } else { String::new() });
                }
                if name == "fsmount" {
                    ev["flags"] = json!(a[1] as u32);
                    ev["attr"] = json!(a[2] as u32);
                }
                relevant = info.class == "tree" && name != "close" && name != "read";
            }
            "fcntl" => {
                dirfd_ev(&mut ev, "fd", a[0] as i32 as i64);
                ev["cmd"] = json!(a[1] as i32);
                ev["arg"] = json!(a[2] as i64);
            }
            "dup2" | "dup3" => {
                dirfd_ev(&mut ev, "fd", a[0] as i32 as i64);
                ev["newfd"] = json!(a[1] as i32);
                ev["flags"] = json!(if name == "dup3" { a[2] as i32 } else { 0 });
            }
            "fsopen" => {
                ev["fs"] = json!(read_cstring(pid, a[0]));
                ev["flags"] = json!(a[1] as u32);
            }
            "mount" | "umount2" | "move_mount" => {
                ev["note"] = json!("mount-table change by library process");
            }
            "write" => {
                ev["fd"] = json!(a[0] as i32 as i64);
            }
            _ => {}
        }
        Entry { nr, name, a, relevant, ev }
    }

    /// complete a syscall whose entry stop we are holding; applies faults; records the event
    fn finish(&mut self, mut ent: Entry, rec: &mut Recorder) -> Option<()> {
        let call = self.in_call;
        let mut inject: Option<i32> = None;
        if let Some(j) = call {
            if injectable(ent.name) {
                let i = self.inj_idx;
                self.inj_idx += 1;
                ent.ev["inj_i"] = json!(i);
                if let Some(e) = rec.plan.faults.get(&(j, i)) {
                    inject = Some(*e);
                }
                if let Some((cj, from, e)) = rec.plan.exhaust {
                    if cj == j && i >= from && fd_creating(ent.name, &ent.a) {
                        inject = Some(e);
                    }
                }
                for (k, (nm, e, count, cj, cls)) in rec.plan.seq.iter().enumerate() {
                    if *cj == j && nm == ent.name && rec.seq_used[k] < *count {
                        // only syscalls against one descriptor class take part in a sequence (default: the tree)
                        if ent.ev.get("dfd_class").and_then(|v| v.as_str()) == Some(cls.as_str()) {
                            rec.seq_used[k] += 1;
                            inject = Some(*e);
                        }
                    }
                }
            }
        }
        if ent.name == "statx" && rec.plan.statx_clear != 0 && inject.is_none() {
            let mut regs = self.regs();
            regs.r10 &= !rec.plan.statx_clear;
            self.setregs(&regs);
            ent.ev["mask_cleared"] = json!(rec.plan.statx_clear);
        }
        if let Some(e) = inject {
            let mut regs = self.regs();
            regs.orig_rax = u64::MAX; // no syscall is executed
            self.setregs(&regs);
            ent.ev["injected"] = json!(e);
        }
        self.next_stop()?; // exit stop
        let mut regs = self.regs();
        if let Some(e) = inject {
            regs.rax = (-(e as i64)) as u64;
            self.setregs(&regs);
        }
        let ret = regs.rax as i64;
        ent.ev["ret"] = json!(ret);
        if call.is_some() {
            // identity of a returned descriptor
            if ret >= 0 && fd_creating(ent.name, &ent.a) {
                let info = classify_fd(self.pid, ret, rec.scratch);
                let mut id = info.id;
                if info.class == "tree" && id == 0 {
                    // an inode the library just created (O_CREAT): register under a fresh id
                    id = register_tracee_fd(self.pid, ret, rec.scratch);
                    ent.ev["r_new"] = json!(true);
                }
                ent.ev["r_class"] = json!(info.class);
                ent.ev["r_id"] = json!(id);
                ent.ev["r_ft"] = json!(info.ft);
            }
            if ent.name == "readlinkat" || ent.name == "readlink" {
                if ret > 0 {
                    let (addr, _sz) = if ent.name == "readlinkat" { (ent.a[2], ent.a[3]) } else { (ent.a[1], ent.a[2]) };
                    let b = read_bytes(self.pid, addr, std::cmp::min(ret as usize, 4096));
                    ent.ev["body"] = json!(String::from_utf8_lossy(&b));
                }
            }
            if ent.name == "getdents64" && ret > 0 {
                let b = read_bytes(self.pid, ent.a[1], ret as usize);
                let mut names = Vec::new();
                let mut off = 0usize;
                while off + 19 < b.len() {
                    let reclen = u16::from_le_bytes([b[off + 16], b[off + 17]]) as usize;
                    if reclen == 0 {
                        break;
                    }
                    let nm = &b[off + 19..std::cmp::min(off + reclen, b.len())];
                    let end = nm.iter().position(|c| *c == 0).unwrap_or(nm.len());
                    names.push(String::from_utf8_lossy(&nm[..end]).to_string());
                    off += reclen;
                }
                ent.ev["names"] = json!(names);
            }
            // inodes created by mkdirat/mknodat/symlinkat: look them up now so they get ids
            if ret == 0 && matches!(ent.name, "mkdirat" | "mknodat" | "symlinkat") {
                let dfd = ent.ev.get("dfd").and_then(|v| v.as_i64()).unwrap_or(-1);
                let path = ent.ev.get("path").and_then(|v| v.as_str()).unwrap_or("").to_string();
                if ent.ev.get("dfd_class").and_then(|v| v.as_str()) == Some("tree") && !path.contains('/') {
                    let p = format!("/proc/{}/fd/{}/{}", self.pid, dfd, path);
                    let c = cstr(&p);
                    let fd = unsafe { libc::open(c.as_ptr(), libc::O_PATH | libc::O_NOFOLLOW | libc::O_CLOEXEC) };
                    if fd >= 0 {
                        let id = rec.scratch.register_fd(fd);
                        unsafe { libc::close(fd) };
                        ent.ev["new_id"] = json!(id);
                    }
                }
            }
            ent.ev["ev"] = json!("sys");
            ent.ev["call"] = json!(call.unwrap());
            ent.ev["i"] = json!(self.sys_idx);
            ent.ev["rel"] = json!(ent.relevant);
            ent.ev["who"] = json!(self.who);
            self.sys_idx += 1;
            if ent.relevant {
                ent.ev["k"] = json!(self.rel_idx);
                self.rel_idx += 1;
            }
            if rec.record_raw || ent.relevant || inject.is_some() {
                rec.events.push(ent.ev);
            }
        }
        Some(())
    }

    /// Run the tracee until a marker, (optionally) the entry of the next relevant syscall, or exit.
    pub fn run(&mut self, rec: &mut Recorder, stop_at_relevant: bool) -> Stop {
        loop {
            if let Some(ent) = self.pending_entry.take() {
                if self.finish(ent, rec).is_none() {
                    return self.gone();
                }
            }
            if self.next_stop().is_none() {
                return self.gone();
            }
            let ent = self.decode_entry(rec);
            // markers
            if ent.nr == libc::SYS_write && ent.a[0] as i32 == -77 {
                let tag = String::from_utf8_lossy(&read_bytes(self.pid, ent.a[1], ent.a[2] as usize)).to_string();
                if self.next_stop().is_none() {
                    return self.gone();
                }
                if let Some(rest) = tag.strip_prefix("BEGIN ") {
                    let j: usize = rest.trim().parse().unwrap_or(0);
                    self.in_call = Some(j);
                    self.sys_idx = 0;
                    self.rel_idx = 0;
                    self.inj_idx = 0;
                } else if tag == "END" {
                    self.in_call = None;
                }
                return Stop::Marker(tag);
            }
            if let Some(j) = self.in_call {
                if self.sys_idx > 400_000 {
                    return Stop::Hang;
                }
                if ent.relevant {
                    // attacker actions scheduled before this relevant syscall
                    if let Some(acts) = rec.plan.sched.remove(&(j, self.rel_idx)) {
                        for a in acts {
                            let ev = do_attack(rec.scratch, &a);
                            rec.events.push(ev);
                        }
                        // identities may have changed: re-decode so ids reflect the new state
                        let ent2 = self.decode_entry(rec);
                        if stop_at_relevant {
                            self.pending_entry = Some(ent2);
                            return Stop::Relevant;
                        }
                        if self.finish(ent2, rec).is_none() {
                            return self.gone();
                        }
                        continue;
                    }
                    if stop_at_relevant {
                        self.pending_entry = Some(ent);
                        return Stop::Relevant;
                    }
                }
            }
            if self.finish(ent, rec).is_none() {
                return self.gone();
            }
        }
    }

    fn gone(&mut self) -> Stop {
        if self.dead {
            Stop::Exited(self.exit_status.unwrap_or(-1))
        } else {
            Stop::Hang
        }
    }
}

/// Execute the relevant syscall process `p` is holding (if any) and run it to its next relevant
/// syscall entry (or, with `to_end`, to the end of the case).
fn step_proc(w: &mut Worker, p: usize, rec: &mut Recorder, done: &mut Vec<bool>, status: &mut Value, to_end: bool) {
    loop {
        match w.run(rec, !to_end) {
            Stop::Marker(t) => {
                rec.events.push(json!({"ev": "mark", "tag": t, "who": p}));
                if t == "DONE" {
                    done[p] = true;
                    return;
                }
            }
            Stop::Relevant => return,
            Stop::Exited(st) => {
                *status = json!({"exited": st, "proc": p});
                done[p] = true;
                return;
            }
            Stop::Hang => {
                *status = json!({"hang": p});
                done[p] = true;
                return;
            }
        }
    }
}

fn register_tracee_fd(pid: i32, fd: i64, scratch: &mut Scratch) -> u32 {
    let p = format!("/proc/{}/fd/{}", pid, fd);
    let c = cstr(&p);
    let h = unsafe { libc::open(c.as_ptr(), libc::O_PATH | libc::O_CLOEXEC) };
    if h < 0 {
        return 0;
    }
    let id = scratch.register_fd(h);
    unsafe { libc::close(h) };
    id
}

// ---------------------------------------------------------------------------------------------
// the attacker: single kernel-atomic mutations, addressed by (parent inode id, name)

pub fn do_attack(scratch: &mut Scratch, a: &Value) -> Value {
    let act = a.get("act").and_then(|v| v.as_str()).unwrap_or("");
    let g = |k: &str| a.get(k).and_then(|v| v.as_u64()).unwrap_or(0) as u32;
    let s = |k: &str| a.get(k).and_then(|v| v.as_str()).unwrap_or("").to_string();
    let mut ev = a.clone();
    ev["ev"] = json!("att");
    let pfd = |id: u32| scratch.pin_fd(id).unwrap_or(-1);
    let ret: i64 = match act {
        "rename" | "exchange" => {
            let flags = if act == "exchange" { libc::RENAME_EXCHANGE } else { a.get("flags").and_then(|v| v.as_u64()).unwrap_or(0) as u32 };
            let sn = cstr(s("sn"));
            let dn = cstr(s("dn"));
            let r = unsafe { libc::syscall(libc::SYS_renameat2, pfd(g("sp")), sn.as_ptr(), pfd(g("dp")), dn.as_ptr(), flags) };
            if r == 0 { 0 } else { -(errno() as i64) }
        }
        "unlink" | "rmdir" => {
            let n = cstr(s("n"));
            let r = unsafe { libc::unlinkat(pfd(g("p")), n.as_ptr(), if act == "rmdir" { libc::AT_REMOVEDIR } else { 0 }) };
            if r == 0 { 0 } else { -(errno() as i64) }
        }
        "mkdir" | "mkfile" | "symlink" | "mkfifo" => {
            let n = cstr(s("n"));
            let p = pfd(g("p"));
            let r = match act {
                "mkdir" => unsafe { libc::mkdirat(p, n.as_ptr(), 0o755) },
                "mkfifo" => unsafe { libc::mknodat(p, n.as_ptr(), libc::S_IFIFO | 0o644, 0) },
                "mkfile" => {
                    let fd = unsafe { libc::openat(p, n.as_ptr(), libc::O_CREAT | libc::O_EXCL | libc::O_WRONLY | libc::O_CLOEXEC, 0o644) };
                    if fd >= 0 {
                        unsafe { libc::close(fd) };
                        0
                    } else {
                        -1
                    }
                }
                _ => {
                    let b = cstr(s("body"));
                    unsafe { libc::symlinkat(b.as_ptr(), p, n.as_ptr()) }
                }
            };
            if r == 0 {
                let fd = unsafe { libc::openat(p, n.as_ptr(), libc::O_PATH | libc::O_NOFOLLOW | libc::O_CLOEXEC) };
                if fd >= 0 {
                    let id = scratch.register_fd(fd);
                    unsafe { libc::close(fd) };
                    ev["new_id"] = json!(id);
                }
                0
            } else {
                -(errno() as i64)
            }
        }
        "mount" => match do_mount(&scratch.dir, &s("target"), &s("kind"), &s("src")) {
            Ok(()) => {
                if let Some(st) = crate::tree::lstat(Path::new(&s("target"))) {
                    ev["src_dev"] = json!(st.st_dev);
                    ev["src_ino"] = json!(st.st_ino);
                }
                0
            }
            Err(e) => -(e as i64),
        },
        "umount" => do_umount(&s("target")) as i64,
        _ => -(libc::ENOSYS as i64),
    };
    ev["ret"] = json!(ret);
    ev
}


// ---------------------------------------------------------------------------------------------
// over-mounts on the host /proc of this shard's private mount namespace

fn opath(path: &str) -> i32 {
    let c = cstr(path);
    unsafe { libc::open(c.as_ptr(), libc::O_PATH | libc::O_NOFOLLOW | libc::O_CLOEXEC) }
}

/// place `kind` on top of `target`; returns Ok(()) or errno
pub fn do_mount(base: &Path, target: &str, kind: &str, src: &str) -> Result<(), i32> {
    let me = std::process::id();
    let t = cstr(target);
    let rc = match kind {
        "tmpfs" => unsafe {
            let fs = cstr("tmpfs");
            libc::mount(fs.as_ptr(), t.as_ptr(), fs.as_ptr(), 0, std::ptr::null())
        },
        "tmpfs-selfonly" => unsafe {
            // a fake /proc that has a "self" entry but no "thread-self"
            let fs = cstr("tmpfs");
            let r = libc::mount(fs.as_ptr(), t.as_ptr(), fs.as_ptr(), 0, std::ptr::null());
            if r == 0 {
                let _ = std::os::unix::fs::symlink("nowhere", format!("{}/self", target));
            }
            r
        },
        "bind-file" | "bind-procfile" | "bind-procdir" => {
            let srcp = if kind == "bind-file" {
                let f = base.join("overmount-src-file");
                let _ = std::fs::write(&f, b"FOREIGN FILE CONTENT\n");
                f.to_string_lossy().to_string()
            } else {
                src.to_string()
            };
            let sc = cstr(&srcp);
            unsafe { libc::mount(sc.as_ptr(), t.as_ptr(), std::ptr::null(), libc::MS_BIND, std::ptr::null()) }
        }
        "bind-symlink" => {
            // a symlink mounted on a symlink / magic-link: both ends via O_PATH|O_NOFOLLOW descriptors
            let l = base.join(format!("overmount-src-link-{}", src.replace('/', "_")));
            let _ = std::fs::remove_file(&l);
            let _ = std::os::unix::fs::symlink(src, &l);
            let a = opath(&l.to_string_lossy());
            let b = opath(target);
            if a < 0 || b < 0 {
                -1
            } else {
                let ap = cstr(format!("/proc/{}/fd/{}", me, a));
                let bp = cstr(format!("/proc/{}/fd/{}", me, b));
                let r = unsafe { libc::mount(ap.as_ptr(), bp.as_ptr(), std::ptr::null(), libc::MS_BIND, std::ptr::null()) };
                let e = errno();
                unsafe {
                    libc::close(a);
                    libc::close(b);
                }
                if r != 0 {
                    return Err(e);
                }
                0
            }
        }
        _ => -1,
    };
    if rc == 0 { Ok(()) } else { Err(errno()) }
}

pub fn do_umount(target: &str) -> i32 {
    let t = cstr(target);
    // UMOUNT_NOFOLLOW = 8
    let r = unsafe { libc::umount2(t.as_ptr(), libc::MNT_DETACH | 8) };
    if r == 0 { 0 } else { -errno() }
}

fn subst(s: &str, pid: i32) -> String {
    s.replace("{pid}", &pid.to_string())
}

// ---------------------------------------------------------------------------------------------
// executing cases

pub struct Shard {
    pub base: PathBuf,
    pub counter: u64,
    workers: HashMap<String, Worker>,
}

fn map_ids(v: &mut Value, scratch: &Scratch) {
    match v {
        Value::Object(m) => {
            if let (Some(d), Some(i)) = (m.get("dev").and_then(|x| x.as_u64()), m.get("ino").and_then(|x| x.as_u64())) {
                let id = scratch.id_of(d, i);
                m.insert("id".into(), json!(id));
                m.insert("in_scratch".into(), json!(d == scratch.dev));
                m.remove("dev");
                m.remove("ino");
            }
            for (_, x) in m.iter_mut() {
                map_ids(x, scratch);
            }
        }
        Value::Array(a) => {
            for x in a.iter_mut() {
                map_ids(x, scratch);
            }
        }
        _ => {}
    }
}

impl Shard {
    pub fn new(base: PathBuf) -> Shard {
        Shard { base, counter: 0, workers: HashMap::new() }
    }

    fn read_resp(w: &mut Worker) -> Option<Value> {
        use std::io::BufRead;
        let mut line = String::new();
        unsafe { ALARMED = false };
        unsafe { libc::alarm(20) };
        let r = w.resp.read_line(&mut line);
        unsafe { libc::alarm(0) };
        match r {
            Ok(n) if n > 0 => serde_json::from_str(&line).ok(),
            _ => None,
        }
    }

    pub fn run_case(&mut self, case: &Value) -> Value {
        let t0 = std::time::Instant::now();
        let id = case.get("id").cloned().unwrap_or(json!(""));
        let feat = case.get("feat").cloned().unwrap_or(json!({}));
        let traced = case.get("trace").and_then(|v| v.as_bool()).unwrap_or(false);
        let cold = case.get("cold").and_then(|v| v.as_bool()).unwrap_or(false);
        let nprocs = case.get("procs").and_then(|v| v.as_u64()).unwrap_or(1) as usize;
        let nodes: Vec<Node> = match serde_json::from_value(case.get("tree").cloned().unwrap_or(json!([]))) {
            Ok(n) => n,
            Err(e) => return json!({"id": id, "error": format!("bad tree: {e}")}),
        };
        self.counter += 1;
        let dir = self.base.join(format!("c{}", self.counter));
        let mut scratch = Scratch::new(dir);
        if let Err(e) = scratch.build(&nodes) {
            scratch.cleanup();
            return json!({"id": id, "error": format!("tree build: {e}")});
        }
        let init = scratch.snapshot();

        // plan
        let mut plan = Plan::default();
        if let Some(arr) = case.get("sched").and_then(|v| v.as_array()) {
            for s in arr {
                let j = s.get("call").and_then(|v| v.as_u64()).unwrap_or(0) as usize;
                let k = s.get("k").and_then(|v| v.as_u64()).unwrap_or(0) as usize;
                let acts = s.get("acts").and_then(|v| v.as_array()).cloned().unwrap_or_default();
                plan.sched.entry((j, k)).or_default().extend(acts);
            }
        }
        if let Some(arr) = case.get("faults").and_then(|v| v.as_array()) {
            for f in arr {
                let j = f.get("call").and_then(|v| v.as_u64()).unwrap_or(0) as usize;
                let e = f.get("errno").and_then(|v| v.as_i64()).unwrap_or(0) as i32;
                if let Some(i) = f.get("i").and_then(|v| v.as_u64()) {
                    plan.faults.insert((j, i as usize), e);
                } else if let Some(nm) = f.get("nr").and_then(|v| v.as_str()) {
                    let count = f.get("count").and_then(|v| v.as_u64()).unwrap_or(1) as usize;
                    let cls = f.get("cls").and_then(|v| v.as_str()).unwrap_or("tree").to_string();
                    plan.seq.push((nm.to_string(), e, count, j, cls));
                } else if let Some(from) = f.get("from").and_then(|v| v.as_u64()) {
                    plan.exhaust = Some((j, from as usize, e));
                }
            }
        }
        plan.statx_clear = case.get("statx_clear").and_then(|v| v.as_u64()).unwrap_or(0);
        let nseq = plan.seq.len();

        let mut req = case.clone();
        // "root_override": the library's root is an existing host directory (e.g. "/") instead of the scratch tree
        req["rootpath"] = match case.get("root_override").and_then(|v| v.as_str()) {
            Some(o) => json!(o),
            None => json!(scratch.root_path().to_string_lossy()),
        };
        if let Some(o) = req.as_object_mut() {
            o.remove("tree");
            o.remove("sched");
            o.remove("faults");
            o.remove("expect");
        }

        let mut events: Vec<Value> = Vec::new();
        let mut outcome: Vec<Value> = Vec::new();
        let mut status = json!("ok");

        // worker(s)
        let mut keys = Vec::new();
        for p in 0..nprocs {
            let key = format!("{}|{}|{}", feat, traced, p);
            if cold || self.workers.get(&key).map(|w| w.dead).unwrap_or(true) {
                self.workers.remove(&key);
                let mut w = spawn_worker(&feat, traced);
                w.who = p;
                self.workers.insert(key.clone(), w);
            }
            keys.push(key);
        }

        // over-mounts requested by the case (on this shard's private view of the host /proc)
        let wpid = self.workers.get(&keys[0]).map(|w| w.pid).unwrap_or(0);
        let mut mounted: Vec<String> = Vec::new();
        let mut mount_log: Vec<Value> = Vec::new();
        if let Some(opts) = case.get("procmount").and_then(|v| v.as_str()) {
            // a fresh procfs instance with these options becomes this namespace's /proc for the case
            let fs = cstr("proc");
            let t = cstr("/proc");
            let o = cstr(opts);
            let rc = unsafe { libc::mount(fs.as_ptr(), t.as_ptr(), fs.as_ptr(), 0, if opts.is_empty() { std::ptr::null() } else { o.as_ptr() as *const libc::c_void }) };
            if rc == 0 {
                mounted.push("/proc".to_string());
                mount_log.push(json!({"target": "/proc", "kind": format!("proc:{}", opts), "ok": true}));
            } else {
                mount_log.push(json!({"target": "/proc", "kind": format!("proc:{}", opts), "ok": false, "errno": errno()}));
            }
        }
        if let Some(arr) = case.get("mounts").and_then(|v| v.as_array()) {
            for m in arr {
                let target = subst(m.get("target").and_then(|v| v.as_str()).unwrap_or(""), wpid);
                let src = subst(m.get("src").and_then(|v| v.as_str()).unwrap_or(""), wpid);
                let kind = m.get("kind").and_then(|v| v.as_str()).unwrap_or("");
                match do_mount(&scratch.dir, &target, kind, &src) {
                    Ok(()) => {
                        mounted.push(target.clone());
                        // identity of what is now visible at the target (the over-mount's source object)
                        let (sd, si) = crate::tree::lstat(Path::new(&target)).map(|st| (st.st_dev, st.st_ino)).unwrap_or((0, 0));
                        mount_log.push(json!({"target": target, "kind": kind, "ok": true, "src_dev": sd, "src_ino": si}));
                    }
                    Err(e) => mount_log.push(json!({"target": target, "kind": kind, "ok": false, "errno": e})),
                }
            }
        }
        if let Some(o) = req.as_object_mut() {
            o.insert("wpid".into(), json!(wpid));
        }
        if let Some(arr) = req.get_mut("calls").and_then(|v| v.as_array_mut()) {
            for c in arr.iter_mut() {
                if let Some(p) = c.get("path").and_then(|v| v.as_str()).map(|x| subst(x, wpid)) {
                    // "@HOSTPARENT": the host path of the root's parent, spelled as a relative path (see tree.rs, kind "mirror")
                    let hp = scratch.dir.to_string_lossy().trim_start_matches('/').to_string();
                    c["path"] = json!(p.replace("@HOSTPARENT", &hp));
                }
            }
        }
        // scheduled attacker actions may refer to the worker's pid as well
        for (_, acts) in plan.sched.iter_mut() {
            for a in acts.iter_mut() {
                for k in ["target", "src"] {
                    if let Some(v) = a.get(k).and_then(|v| v.as_str()).map(|x| subst(x, wpid)) {
                        a[k] = json!(v);
                    }
                }
            }
        }

        if !traced {
            let key = &keys[0];
            let w = self.workers.get_mut(key).unwrap();
            let mut line = serde_json::to_string(&req).unwrap();
            line.push('\n');
            let _ = w.req.write_all(line.as_bytes());
            match Self::read_resp(w) {
                Some(v) => outcome.push(v),
                None => {
                    status = json!("worker died or hung");
                    self.workers.remove(key);
                }
            }
        } else {
            let mut rec = Recorder { scratch: &mut scratch, events: Vec::new(), plan, seq_used: vec![0; nseq], record_raw: case.get("raw").and_then(|v| v.as_bool()).unwrap_or(true), proc_relevant: case.get("proc_relevant").and_then(|v| v.as_bool()).unwrap_or(false) };
            // send requests
            for (p, key) in keys.iter().enumerate() {
                let w = self.workers.get_mut(key).unwrap();
                let mut r = req.clone();
                r["myproc"] = json!(p);
                let mut line = serde_json::to_string(&r).unwrap();
                line.push('\n');
                let _ = w.req.write_all(line.as_bytes());
            }
            unsafe { ALARMED = false };
            unsafe { libc::alarm(case.get("timeout").and_then(|v| v.as_u64()).unwrap_or(30) as u32) };
            if nprocs == 1 {
                let w = self.workers.get_mut(&keys[0]).unwrap();
                loop {
                    match w.run(&mut rec, false) {
                        Stop::Marker(t) => {
                            rec.events.push(json!({"ev": "mark", "tag": t, "who": 0}));
                            if t == "DONE" {
                                break;
                            }
                        }
                        Stop::Relevant => {}
                        Stop::Exited(st) => {
                            status = json!({"exited": st});
                            break;
                        }
                        Stop::Hang => {
                            status = json!("hang");
                            break;
                        }
                    }
                }
            } else {
                // several library processes: `order` lists which process executes its next
                // relevant syscall; afterwards everybody runs to completion in turn
                let order: Vec<usize> = case.get("order").and_then(|v| v.as_array()).map(|a| a.iter().map(|x| x.as_u64().unwrap_or(0) as usize).collect()).unwrap_or_default();
                let mut done = vec![false; nprocs];
                // bring every process to its first relevant syscall entry (held, not executed)
                for p in 0..nprocs {
                    let w = self.workers.get_mut(&keys[p]).unwrap();
                    step_proc(w, p, &mut rec, &mut done, &mut status, false);
                }
                for p in order {
                    if p < nprocs && !done[p] {
                        let w = self.workers.get_mut(&keys[p]).unwrap();
                        step_proc(w, p, &mut rec, &mut done, &mut status, false);
                    }
                }
                for p in 0..nprocs {
                    if !done[p] {
                        let w = self.workers.get_mut(&keys[p]).unwrap();
                        step_proc(w, p, &mut rec, &mut done, &mut status, true);
                    }
                }
            }
            unsafe { libc::alarm(0) };
            events = std::mem::take(&mut rec.events);
            drop(rec);
            for key in keys.iter() {
                let w = self.workers.get_mut(key).unwrap();
                if w.dead || status != json!("ok") {
                    // collect whatever it wrote, then forget the worker
                    outcome.push(json!({"error": "worker exited", "status": status.clone()}));
                    self.workers.remove(key);
                } else {
                    match Self::read_resp(w) {
                        Some(v) => outcome.push(v),
                        None => {
                            outcome.push(json!({"error": "no response"}));
                            self.workers.remove(key);
                        }
                    }
                }
            }
        }
        // undo the over-mounts (racing mounts of the attacker included), newest first
        for e in events.iter() {
            if e.get("ev").and_then(|v| v.as_str()) == Some("att") && e.get("act").and_then(|v| v.as_str()) == Some("mount") && e.get("ret").and_then(|v| v.as_i64()) == Some(0) {
                if let Some(t) = e.get("target").and_then(|v| v.as_str()) {
                    mounted.push(t.to_string());
                }
            }
        }
        for t in mounted.iter().rev() {
            do_umount(t);
        }
        let fin = scratch.snapshot();
        for o in outcome.iter_mut() {
            map_ids(o, &scratch);
        }
        // a poisoned / cold worker must not be reused
        for (p, key) in keys.iter().enumerate() {
            let poisoned = outcome.get(p).and_then(|o| o.get("poisoned")).and_then(|v| v.as_bool()).unwrap_or(false);
            if poisoned || cold {
                self.workers.remove(key);
            }
        }
        let mut out = json!({
            "id": id, "status": status, "init": init, "final": fin, "events": events, "out": outcome,
            "ms": t0.elapsed().as_millis() as u64, "mounts": mount_log, "wpid": wpid,
        });
        if let Some(m) = case.get("meta") {
            out["meta"] = m.clone();
        }
        scratch.cleanup();
        out
    }
}

/// set up a private mount namespace with a dedicated tmpfs for scratch trees
pub fn private_scratch(tag: &str) -> Result<PathBuf, String> {
    let base = PathBuf::from(format!("/dev/shm/pathrs-verif.{}.{}", tag, std::process::id()));
    std::fs::create_dir_all(&base).map_err(|e| format!("mkdir {:?}: {e}", base))?;
    unsafe {
        if libc::unshare(libc::CLONE_NEWNS) != 0 {
            return Err(format!("unshare: {}", errno()));
        }
        let root = cstr("/");
        let none = cstr("none");
        if libc::mount(none.as_ptr(), root.as_ptr(), std::ptr::null(), libc::MS_REC | libc::MS_PRIVATE, std::ptr::null()) != 0 {
            return Err(format!("make-rprivate: {}", errno()));
        }
        let t = cstr("tmpfs");
        let b = cstr(&base);
        if libc::mount(t.as_ptr(), b.as_ptr(), t.as_ptr(), 0, std::ptr::null()) != 0 {
            return Err(format!("mount tmpfs: {}", errno()));
        }
    }
    Ok(base)
}

pub fn remove_scratch(base: &Path) {
    unsafe {
        let b = cstr(base);
        libc::umount2(b.as_ptr(), libc::MNT_DETACH);
    }
    let _ = std::fs::remove_dir(base);
}
