//! Scratch trees: building a tree from a symbolic spec, pinning inodes, snapshots.
//!
//! Symbolic inode ids: 1 = P (the root's parent, the scratch case dir), 2 = R (the root),
//! 3 = O (the outside directory "out" next to the root), 4 = the host secret file O/secret,
//! tree nodes from 5 on (as numbered by the case).  0 = "unknown / somewhere on the host".

use serde::{Deserialize, Serialize};
use serde_json::{json, Value};
use std::collections::{BTreeMap, HashMap};
use std::ffi::CString;
use std::os::unix::ffi::OsStrExt;
use std::path::{Path, PathBuf};

pub const ID_P: u32 = 1;
pub const ID_R: u32 = 2;
pub const ID_O: u32 = 3;
pub const ID_SECRET: u32 = 4;

#[derive(Debug, Clone, Serialize, Deserialize)]
pub struct Node {
    pub id: u32,
    pub p: u32,
    pub n: String,
    pub k: String, // dir | file | lnk | fifo | hard
    #[serde(default)]
    pub b: String, // link body (lnk) or hardlink target id as string (hard)
    /// name as hex bytes (names that are not valid UTF-8); takes precedence over `n`
    #[serde(default)]
    pub nhex: Option<String>,
    /// link body as hex bytes (bodies that are not valid UTF-8); takes precedence over `b`
    #[serde(default)]
    pub bhex: Option<String>,
    #[serde(default)]
    pub mode: Option<u32>,
    #[serde(default)]
    pub uid: Option<u32>,
}

pub fn cstr<P: AsRef<Path>>(p: P) -> CString {
    CString::new(p.as_ref().as_os_str().as_bytes()).unwrap()
}

pub fn errno() -> i32 {
    std::io::Error::last_os_error().raw_os_error().unwrap_or(0)
}

#[derive(Debug)]
pub struct Scratch {
    pub dir: PathBuf, // P
    pub ids: HashMap<(u64, u64), u32>, // (dev, ino) -> symbolic id
    pub pins: BTreeMap<u32, i32>,      // id -> O_PATH fd
    pub next_id: u32,
    pub dev: u64,
}

pub fn lstat(p: &Path) -> Option<libc::stat> {
    let mut st: libc::stat = unsafe { std::mem::zeroed() };
    let c = cstr(p);
    if unsafe { libc::lstat(c.as_ptr(), &mut st) } == 0 {
        Some(st)
    } else {
        None
    }
}

pub fn fstat(fd: i32) -> Option<libc::stat> {
    let mut st: libc::stat = unsafe { std::mem::zeroed() };
    if unsafe { libc::fstat(fd, &mut st) } == 0 {
        Some(st)
    } else {
        None
    }
}

pub fn kind_of(mode: u32) -> &'static str {
    match mode & libc::S_IFMT {
        libc::S_IFDIR => "dir",
        libc::S_IFREG => "file",
        libc::S_IFLNK => "lnk",
        libc::S_IFIFO => "fifo",
        libc::S_IFCHR => "chr",
        libc::S_IFBLK => "blk",
        libc::S_IFSOCK => "sock",
        _ => "other",
    }
}

impl Scratch {
    pub fn new(dir: PathBuf) -> Scratch {
        std::fs::create_dir_all(&dir).expect("create scratch dir");
        let st = lstat(&dir).expect("stat scratch");
        Scratch { dir, ids: HashMap::new(), pins: BTreeMap::new(), next_id: 5, dev: st.st_dev }
    }

    pub fn root_path(&self) -> PathBuf {
        self.dir.join("root")
    }

    fn pin(&mut self, id: u32, path: &Path) {
        let c = cstr(path);
        let fd = unsafe { libc::open(c.as_ptr(), libc::O_PATH | libc::O_NOFOLLOW | libc::O_CLOEXEC) };
        if fd < 0 {
            panic!("pin {:?}: errno {}", path, errno());
        }
        let st = fstat(fd).expect("fstat pin");
        self.ids.insert((st.st_dev, st.st_ino), id);
        if let Some(old) = self.pins.insert(id, fd) {
            unsafe { libc::close(old) };
        }
        if id >= self.next_id {
            self.next_id = id + 1;
        }
    }

    /// Register an already open fd's inode (dup'ing it as pin) under a fresh id.
    pub fn register_fd(&mut self, fd: i32) -> u32 {
        let st = match fstat(fd) {
            Some(s) => s,
            None => return 0,
        };
        if let Some(id) = self.ids.get(&(st.st_dev, st.st_ino)) {
            return *id;
        }
        let id = self.next_id;
        self.next_id += 1;
        let d = unsafe { libc::fcntl(fd, libc::F_DUPFD_CLOEXEC, 100) };
        self.ids.insert((st.st_dev, st.st_ino), id);
        if d >= 0 {
            self.pins.insert(id, d);
        }
        id
    }

    pub fn id_of(&self, dev: u64, ino: u64) -> u32 {
        *self.ids.get(&(dev, ino)).unwrap_or(&0)
    }

    pub fn pin_fd(&self, id: u32) -> Option<i32> {
        self.pins.get(&id).copied()
    }

    /// Build the fixed frame (P/root, P/out, P/out/secret, P/stage) and the nodes of the case.
    pub fn build(&mut self, nodes: &[Node]) -> Result<(), String> {
        let p = self.dir.clone();
        std::fs::create_dir(p.join("root")).map_err(|e| format!("mkdir root: {e}"))?;
        std::fs::create_dir(p.join("out")).map_err(|e| format!("mkdir out: {e}"))?;
        std::fs::write(p.join("out/secret"), b"host secret\n").map_err(|e| format!("secret: {e}"))?;
        self.pin(ID_P, &p);
        self.pin(ID_R, &p.join("root"));
        self.pin(ID_O, &p.join("out"));
        self.pin(ID_SECRET, &p.join("out/secret"));
        let mut paths: HashMap<u32, PathBuf> = HashMap::new();
        paths.insert(ID_P, p.clone());
        paths.insert(ID_R, p.join("root"));
        paths.insert(ID_O, p.join("out"));
        paths.insert(ID_SECRET, p.join("out/secret"));
        for n in nodes {
            let parent = paths.get(&n.p).ok_or_else(|| format!("node {} has unknown parent {}", n.id, n.p))?.clone();
            if n.k == "deepchain" {
                // a directory whose absolute host path is longer than PATH_MAX: 17 nested directories with 250-byte names,
                // created relative to descriptors; later nodes below it are addressed through /proc/self/fd/<n>
                let pc = cstr(&parent);
                let mut fd = unsafe { libc::open(pc.as_ptr(), libc::O_PATH | libc::O_DIRECTORY | libc::O_CLOEXEC) };
                if fd < 0 {
                    return Err(format!("deepchain: open parent: errno {}", errno()));
                }
                for i in 0..17 {
                    let name = CString::new(format!("{}{}", if i == 0 { n.n.clone() } else { "L".to_string() }, "x".repeat(248))).unwrap();
                    if unsafe { libc::mkdirat(fd, name.as_ptr(), 0o755) } != 0 {
                        return Err(format!("deepchain: mkdirat level {}: errno {}", i, errno()));
                    }
                    let nfd = unsafe { libc::openat(fd, name.as_ptr(), libc::O_PATH | libc::O_DIRECTORY | libc::O_NOFOLLOW | libc::O_CLOEXEC) };
                    unsafe { libc::close(fd) };
                    if nfd < 0 {
                        return Err(format!("deepchain: openat level {}: errno {}", i, errno()));
                    }
                    fd = nfd;
                }
                let via = PathBuf::from(format!("/proc/self/fd/{}", fd));
                // keep `fd` open for the lifetime of the scratch area (children are created through it); pin a second reference
                let viac = cstr(&via);
                let pfd = unsafe { libc::open(viac.as_ptr(), libc::O_PATH | libc::O_DIRECTORY | libc::O_CLOEXEC) };
                if pfd >= 0 {
                    if let Some(st) = fstat(pfd) {
                        self.ids.insert((st.st_dev, st.st_ino), n.id);
                        if let Some(old) = self.pins.insert(n.id, pfd) {
                            unsafe { libc::close(old) };
                        }
                        if n.id >= self.next_id {
                            self.next_id = n.id + 1;
                        }
                    }
                }
                paths.insert(n.id, via);
                continue;
            }
            if n.k == "rootattr" {
                // mode / owner of the root directory itself
                let rp = cstr(p.join("root"));
                if let Some(m) = n.mode {
                    unsafe { libc::chmod(rp.as_ptr(), m) };
                }
                if let Some(u) = n.uid {
                    unsafe { libc::chown(rp.as_ptr(), u, u) };
                }
                continue;
            }
            if n.k == "mirror" {
                // a chain of directories below the parent that spells the host path of P (the root's parent): a lexical
                // in-root path through it reads exactly like the host path of an object next to the root
                let rel = p.to_string_lossy().trim_start_matches('/').to_string();
                let path = parent.join(&rel);
                std::fs::create_dir_all(&path).map_err(|e| format!("mirror {:?}: {e}", path))?;
                self.pin(n.id, &path);
                paths.insert(n.id, path);
                continue;
            }
            let path = match &n.nhex {
                Some(h) => {
                    let raw: Vec<u8> = (0..h.len() / 2).filter_map(|i| u8::from_str_radix(&h[2 * i..2 * i + 2], 16).ok()).collect();
                    parent.join(std::ffi::OsStr::from_bytes(&raw))
                }
                None => parent.join(&n.n),
            };
            let c = cstr(&path);
            let mode = n.mode.unwrap_or(if n.k == "dir" { 0o755 } else { 0o644 });
            let rc = match n.k.as_str() {
                "dir" => unsafe { libc::mkdir(c.as_ptr(), mode) },
                "file" => {
                    let fd = unsafe { libc::open(c.as_ptr(), libc::O_CREAT | libc::O_EXCL | libc::O_WRONLY | libc::O_CLOEXEC, mode) };
                    if fd >= 0 {
                        let content = format!("file {}\n", n.id);
                        unsafe { libc::write(fd, content.as_ptr() as *const _, content.len()) };
                        unsafe { libc::close(fd) };
                        0
                    } else {
                        -1
                    }
                }
                "lnk" => {
                    let raw: Vec<u8> = match &n.bhex {
                        Some(h) => (0..h.len() / 2).filter_map(|i| u8::from_str_radix(&h[2 * i..2 * i + 2], 16).ok()).collect(),
                        None => n.b.as_bytes().to_vec(),
                    };
                    let b = CString::new(raw).unwrap();
                    unsafe { libc::symlink(b.as_ptr(), c.as_ptr()) }
                }
                "fifo" => unsafe { libc::mkfifo(c.as_ptr(), mode) },
                "sock" => unsafe { libc::mknod(c.as_ptr(), libc::S_IFSOCK | mode, 0) },
                "chr" => unsafe { libc::mknod(c.as_ptr(), libc::S_IFCHR | mode, libc::makedev(1, 3)) },
                "blk" => unsafe { libc::mknod(c.as_ptr(), libc::S_IFBLK | mode, libc::makedev(7, 0)) },
                "hard" => {
                    let tid: u32 = n.b.parse().map_err(|_| "hard: bad target".to_string())?;
                    let t = paths.get(&tid).ok_or("hard: unknown target")?;
                    let tc = cstr(t);
                    unsafe { libc::link(tc.as_ptr(), c.as_ptr()) }
                }
                k => return Err(format!("unknown kind {k}")),
            };
            if rc != 0 {
                return Err(format!("create {:?} ({}) failed: errno {}", path, n.k, errno()));
            }
            if n.k != "lnk" {
                if n.mode.is_some() {
                    unsafe { libc::chmod(c.as_ptr(), mode) };
                }
            }
            if let Some(uid) = n.uid {
                unsafe { libc::lchown(c.as_ptr(), uid, uid) };
            }
            if n.k == "hard" {
                // same inode as the target: keep the target's id
                paths.insert(n.id, path);
            } else {
                self.pin(n.id, &path);
                paths.insert(n.id, path);
            }
        }
        Ok(())
    }

    /// Walk everything below P; unknown inodes get fresh ids (and are pinned).
    pub fn snapshot(&mut self) -> Value {
        let mut dents: Vec<Value> = Vec::new();
        let mut inodes: BTreeMap<u32, Value> = BTreeMap::new();
        let root = self.dir.clone();
        let st = lstat(&root).unwrap();
        let pid = self.id_of(st.st_dev, st.st_ino);
        inodes.insert(pid, json!({"k":"dir","mode": st.st_mode & 0o7777}));
        self.walk(&root, pid, &mut dents, &mut inodes, 0);
        dents.sort_by(|a, b| {
            let ka = (a["p"].as_u64(), a["n"].as_str().map(|s| s.to_string()));
            let kb = (b["p"].as_u64(), b["n"].as_str().map(|s| s.to_string()));
            ka.cmp(&kb)
        });
        let ino_list: Vec<Value> = inodes
            .into_iter()
            .map(|(id, mut v)| {
                v["id"] = json!(id);
                v
            })
            .collect();
        json!({"dents": dents, "inodes": ino_list})
    }

    /// fd-relative walk (directories whose absolute path exceeds PATH_MAX are walked like any other)
    fn walk(&mut self, dir: &Path, dir_id: u32, dents: &mut Vec<Value>, inodes: &mut BTreeMap<u32, Value>, depth: u32) {
        let c = cstr(dir);
        let fd = unsafe { libc::open(c.as_ptr(), libc::O_RDONLY | libc::O_DIRECTORY | libc::O_CLOEXEC) };
        if fd < 0 {
            return;
        }
        self.walk_fd(fd, dir_id, dents, inodes, depth);
    }

    /// consumes `fd` (closed by closedir)
    fn walk_fd(&mut self, fd: i32, dir_id: u32, dents: &mut Vec<Value>, inodes: &mut BTreeMap<u32, Value>, depth: u32) {
        if depth > 64 {
            unsafe { libc::close(fd) };
            return;
        }
        let dp = unsafe { libc::fdopendir(fd) };
        if dp.is_null() {
            unsafe { libc::close(fd) };
            return;
        }
        let mut names: Vec<Vec<u8>> = Vec::new();
        loop {
            let e = unsafe { libc::readdir(dp) };
            if e.is_null() {
                break;
            }
            let nm = unsafe { std::ffi::CStr::from_ptr((*e).d_name.as_ptr()) }.to_bytes().to_vec();
            if nm != b"." && nm != b".." {
                names.push(nm);
            }
        }
        names.sort();
        let dfd = unsafe { libc::dirfd(dp) };
        for name in names {
            let cn = CString::new(name.clone()).unwrap();
            let mut st: libc::stat = unsafe { std::mem::zeroed() };
            if unsafe { libc::fstatat(dfd, cn.as_ptr(), &mut st, libc::AT_SYMLINK_NOFOLLOW) } != 0 {
                continue;
            }
            let mut id = self.id_of(st.st_dev, st.st_ino);
            if id == 0 {
                let pfd = unsafe { libc::openat(dfd, cn.as_ptr(), libc::O_PATH | libc::O_NOFOLLOW | libc::O_CLOEXEC) };
                if pfd < 0 {
                    continue;
                }
                id = self.next_id;
                self.next_id += 1;
                self.ids.insert((st.st_dev, st.st_ino), id);
                self.pins.insert(id, pfd);
            }
            let k = kind_of(st.st_mode);
            dents.push(json!({"p": dir_id, "n": String::from_utf8_lossy(&name), "c": id}));
            if !inodes.contains_key(&id) {
                let mut v = json!({"k": k, "mode": st.st_mode & 0o7777, "nlink": st.st_nlink, "uid": st.st_uid});
                if k == "lnk" {
                    let mut buf = vec![0u8; 8192];
                    let n = unsafe { libc::readlinkat(dfd, cn.as_ptr(), buf.as_mut_ptr() as *mut libc::c_char, buf.len()) };
                    v["b"] = json!(if n >= 0 { String::from_utf8_lossy(&buf[..n as usize]).to_string() } else { String::new() });
                }
                if k == "file" {
                    v["size"] = json!(st.st_size);
                }
                if k == "chr" || k == "blk" {
                    v["rdev"] = json!(st.st_rdev);
                }
                inodes.insert(id, v);
                if k == "dir" {
                    let sub = unsafe { libc::openat(dfd, cn.as_ptr(), libc::O_RDONLY | libc::O_DIRECTORY | libc::O_NOFOLLOW | libc::O_CLOEXEC) };
                    if sub >= 0 {
                        self.walk_fd(sub, id, dents, inodes, depth + 1);
                    }
                }
            }
        }
        unsafe { libc::closedir(dp) };
    }

    pub fn cleanup(&mut self) {
        for (_, fd) in self.pins.iter() {
            unsafe { libc::close(*fd) };
        }
        self.pins.clear();
        // make everything removable, then remove
        let _ = std::process::Command::new("chmod").arg("-R").arg("u+rwx").arg(&self.dir).status();
        let _ = std::fs::remove_dir_all(&self.dir);
    }
}
