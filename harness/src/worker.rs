//! The worker: a forked child that executes cases against the real library.
//! Protocol: one JSON line per case on the request pipe, one JSON line back on the response pipe,
//! then the marker "DONE" (seen by a tracer, harmless otherwise).

use crate::ops::{exec_call, marker, Ctx};
use pathrs::Root;
use serde_json::{json, Value};
use std::io::{BufRead, BufReader, Write};
use std::os::unix::io::{AsRawFd, FromRawFd};

fn list_fds() -> Vec<(i32, u64, u64, bool, i64)> {
    // (fd, dev, ino, cloexec, f_type); uses getdents on /proc/self/fd through libc directly
    let mut out = Vec::new();
    let path = std::ffi::CString::new(format!("/proc/{}/task/{}/fd", unsafe { libc::getpid() }, unsafe { libc::syscall(libc::SYS_gettid) })).unwrap();
    let dir = unsafe { libc::opendir(path.as_ptr()) };
    if dir.is_null() {
        return out;
    }
    let dfd = unsafe { libc::dirfd(dir) };
    loop {
        let ent = unsafe { libc::readdir(dir) };
        if ent.is_null() {
            break;
        }
        let name = unsafe { std::ffi::CStr::from_ptr((*ent).d_name.as_ptr()) }.to_string_lossy().to_string();
        if let Ok(n) = name.parse::<i32>() {
            if n == dfd {
                continue;
            }
            let mut st: libc::stat = unsafe { std::mem::zeroed() };
            if unsafe { libc::fstat(n, &mut st) } != 0 {
                continue;
            }
            let fdfl = unsafe { libc::fcntl(n, libc::F_GETFD) };
            let mut sfs: libc::statfs = unsafe { std::mem::zeroed() };
            let ft = if unsafe { libc::fstatfs(n, &mut sfs) } == 0 { sfs.f_type as i64 } else { -1 };
            out.push((n, st.st_dev, st.st_ino, fdfl >= 0 && (fdfl & libc::FD_CLOEXEC) != 0, ft));
        }
    }
    unsafe { libc::closedir(dir) };
    out.sort();
    out
}

fn fds_json(v: &[(i32, u64, u64, bool, i64)]) -> Value {
    Value::Array(
        v.iter()
            .map(|(n, d, i, c, ft)| json!({"fd": n, "dev": d, "ino": i, "cloexec": c, "ftype": ft, "procroot": *ft == 0x9fa0 && *i == 1}))
            .collect(),
    )
}

pub fn worker_main(req_fd: i32, resp_fd: i32, feat: &Value) -> ! {
    // feature mask first: everything the library does afterwards sees the masked kernel
    let mask = crate::seccomp::feature_mask(feat);
    if let Err(e) = crate::seccomp::mask_syscalls(&mask, libc::ENOSYS) {
        eprintln!("pv worker: seccomp failed: {e}");
        unsafe { libc::_exit(97) };
    }
    unsafe { libc::umask(0o022) };
    let req = unsafe { std::fs::File::from_raw_fd(req_fd) };
    let mut resp = unsafe { std::fs::File::from_raw_fd(resp_fd) };
    let mut rd = BufReader::new(req);
    let mut line = String::new();
    #[allow(unused_assignments)]
    let mut prev_ctx: Option<Ctx> = None;
    let mut prev_thread: Option<(std::sync::mpsc::Sender<()>, std::thread::JoinHandle<()>, Vec<i32>)> = None;
    // silence the default panic message spam but keep location for reports
    std::panic::set_hook(Box::new(|info| {
        let loc = info.location().map(|l| format!("{}:{}", l.file(), l.line())).unwrap_or_default();
        LAST_PANIC_LOC.with(|c| *c.borrow_mut() = loc);
    }));
    loop {
        line.clear();
        match rd.read_line(&mut line) {
            Ok(0) | Err(_) => unsafe { libc::_exit(0) },
            Ok(_) => {}
        }
        let case: Value = match serde_json::from_str(&line) {
            Ok(v) => v,
            Err(e) => {
                let _ = writeln!(resp, "{}", json!({"error": format!("bad case json: {e}")}));
                marker("DONE");
                continue;
            }
        };
        // descriptors returned by the previous case stay open until the supervisor has mapped
        // their identities and taken its snapshot (it only sends the next case afterwards)
        prev_ctx = None;
        if let Some((tx, th, decoys)) = prev_thread.take() {
            // the previous case ran in a thread with a private descriptor table: let it drop its descriptors now
            let _ = tx.send(());
            let _ = th.join();
            for fd in decoys {
                unsafe { libc::close(fd) };
            }
        }
        let (out, ctx) = if case.get("in_thread").and_then(|v| v.as_bool()).unwrap_or(false) {
            // caller context "thread with a private descriptor table": the calls are made by a thread that has left the
            // process's descriptor table (unshare(CLONE_FILES)); meanwhile the thread-group leader holds a directory OUTSIDE the
            // root at the descriptor numbers the thread is going to get.  /proc/self/fd/N is the leader's N, only
            // /proc/thread-self/fd/N is the caller's.
            // The library caches one procfs descriptor for the whole process; a process whose threads do not share one
            // descriptor table must create it where all of them can see it.  The leader does that first (a thread-private
            // first use would leave later callers with a stale descriptor NUMBER -- the application's mistake, not a subject).
            {
                let rp = std::ffi::CString::new(case.get("rootpath").and_then(|v| v.as_str()).unwrap_or("/")).unwrap();
                let fd = unsafe { libc::open(rp.as_ptr(), libc::O_PATH | libc::O_DIRECTORY | libc::O_CLOEXEC) };
                if fd >= 0 {
                    let b = unsafe { std::os::unix::io::BorrowedFd::borrow_raw(fd) };
                    let _ = pathrs::HandleRef::from_fd(b).reopen(pathrs::flags::OpenFlags::O_PATH);
                    unsafe { libc::close(fd) };
                }
            }
            let (ready_tx, ready_rx) = std::sync::mpsc::channel::<bool>();
            let (go_tx, go_rx) = std::sync::mpsc::channel::<()>();
            let (out_tx, out_rx) = std::sync::mpsc::channel::<Value>();
            let (fin_tx, fin_rx) = std::sync::mpsc::channel::<()>();
            let case2 = case.clone();
            let th = std::thread::spawn(move || {
                let ok = unsafe { libc::unshare(libc::CLONE_FILES) } == 0;
                let _ = ready_tx.send(ok);
                let _ = go_rx.recv();
                let (out, ctx) = if ok { run_case(&case2) } else { (json!({"error": "unshare(CLONE_FILES) failed"}), None) };
                let _ = out_tx.send(out);
                let _ = fin_rx.recv();
                drop(ctx);
            });
            let ok = ready_rx.recv().unwrap_or(false);
            let mut decoys = Vec::new();
            if ok {
                let rootpath = case.get("rootpath").and_then(|v| v.as_str()).unwrap_or("");
                let outside = std::ffi::CString::new(format!("{}/../out", rootpath)).unwrap();
                for _ in 0..64 {
                    let fd = unsafe { libc::open(outside.as_ptr(), libc::O_RDONLY | libc::O_DIRECTORY | libc::O_CLOEXEC) };
                    if fd >= 0 {
                        decoys.push(fd);
                    }
                }
            }
            let _ = go_tx.send(());
            let out = out_rx.recv().unwrap_or(json!({"error": "thread died", "poisoned": true}));
            prev_thread = Some((fin_tx, th, decoys));
            (out, None)
        } else {
            run_case(&case)
        };
        prev_ctx = ctx;
        let mut s = serde_json::to_string(&out).unwrap();
        s.push('\n');
        let _ = resp.write_all(s.as_bytes());
        let _ = resp.flush();
        marker("DONE");
        if out.get("poisoned").and_then(|v| v.as_bool()).unwrap_or(false) {
            // a panic may have poisoned process-global state: this worker must not be reused
            unsafe { libc::_exit(0) };
        }
    }
}

/// pid numbers are recycled over long runs: a worker is identified by (pid, start time)
fn worker_uid() -> String {
    static START: std::sync::OnceLock<String> = std::sync::OnceLock::new();
    START
        .get_or_init(|| {
            let mut ts: libc::timespec = unsafe { std::mem::zeroed() };
            unsafe { libc::clock_gettime(libc::CLOCK_MONOTONIC, &mut ts) };
            format!("{}-{}.{}", unsafe { libc::getpid() }, ts.tv_sec, ts.tv_nsec)
        })
        .clone()
}

thread_local! {
    static LAST_PANIC_LOC: std::cell::RefCell<String> = std::cell::RefCell::new(String::new());
}

fn run_case(case: &Value) -> (Value, Option<Ctx>) {
    let rootpath = case.get("rootpath").and_then(|v| v.as_str()).unwrap_or("");
    let calls = case.get("calls").and_then(|v| v.as_array()).cloned().unwrap_or_default();
    let myproc = case.get("myproc").and_then(|v| v.as_u64()).unwrap_or(0);

    // optional: make descriptor 0 free (after the root has been opened) so that the library's
    // next open gets descriptor number 0
    // optional: another file mode creation mask for this case (restored by the next case)
    unsafe { libc::umask(case.get("umask").and_then(|v| v.as_u64()).unwrap_or(0o022) as libc::mode_t) };
    let close0 = case.get("close0").and_then(|v| v.as_bool()).unwrap_or(false);
    let mut saved0: i32 = -1;
    let mut ctx = Ctx { root: None, root_raw: -1, kept: Vec::new(), procfs: None };
    // the current directory of the worker is the scratch case directory (the root's parent), so
    // that anything resolved relative to the cwd by mistake shows up in the outside snapshot
    if !rootpath.is_empty() {
        let parent = std::path::Path::new(rootpath).parent().map(|p| p.to_path_buf());
        if let Some(p) = parent {
            let _ = std::env::set_current_dir(&p);
        }
    }
    if !rootpath.is_empty() {
        marker("OPENROOT");
        // "root_rdonly": the root is a descriptor the caller opened itself with O_RDONLY|O_DIRECTORY (what a C program
        // that does not know about O_PATH hands to pathrs_inroot_*), wrapped with Root::from_fd
        let opened = if case.get("root_rdonly").and_then(|v| v.as_bool()).unwrap_or(false) {
            let rp = std::ffi::CString::new(rootpath).unwrap();
            let fd = unsafe { libc::open(rp.as_ptr(), libc::O_RDONLY | libc::O_DIRECTORY | libc::O_CLOEXEC) };
            if fd < 0 {
                Err(format!("open(root) failed: errno {}", crate::tree::errno()))
            } else {
                Ok(Root::from_fd(unsafe { std::os::unix::io::OwnedFd::from_raw_fd(fd) }))
            }
        } else {
            Root::open(rootpath).map_err(|e| format!("{e}"))
        };
        match opened {
            Ok(r) => {
                ctx.root_raw = std::os::unix::io::AsFd::as_fd(&r).as_raw_fd();
                ctx.root = Some(r);
            }
            Err(e) => {
                marker("END");
                return (json!({"error": format!("Root::open failed: {e}")}), None);
            }
        }
        marker("END");
    }
    if close0 {
        saved0 = unsafe { libc::fcntl(0, libc::F_DUPFD_CLOEXEC, 200) };
        unsafe { libc::close(0) };
    }
    let mut results: Vec<Value> = Vec::new();
    let mut poisoned = false;
    for (idx, c) in calls.iter().enumerate() {
        if c.get("proc").and_then(|v| v.as_u64()).unwrap_or(0) != myproc {
            results.push(json!({"skip": "other proc"}));
            continue;
        }
        let mut c = c.clone();
        if c.get("op").and_then(|v| v.as_str()) == Some("reopen_in_thread") {
            c["rootpath_abs"] = json!(rootpath);
        }
        let c = &c;
        let before = list_fds();
        LAST_PANIC_LOC.with(|c| c.borrow_mut().clear());
        let mut r = exec_call(&mut ctx, idx, c);
        let after = list_fds();
        if r.get("panic").is_some() {
            poisoned = true;
            r["panic_loc"] = json!(LAST_PANIC_LOC.with(|c| c.borrow().clone()));
        }
        // descriptor accounting (C11): what appeared / disappeared / changed identity
        let mut opened = Vec::new();
        let mut closed = Vec::new();
        let mut changed = Vec::new();
        for a in &after {
            match before.iter().find(|b| b.0 == a.0) {
                None => opened.push(*a),
                Some(b) => {
                    if (b.1, b.2) != (a.1, a.2) {
                        changed.push(*a);
                    }
                }
            }
        }
        for b in &before {
            if !after.iter().any(|a| a.0 == b.0) {
                closed.push(*b);
            }
        }
        if r.get("ret_is_new_fd").is_some() && opened.len() == 1 {
            r["fd"] = json!(opened[0].0);
        }
        r["fds_opened"] = fds_json(&opened);
        r["fds_closed"] = fds_json(&closed);
        r["fds_changed"] = fds_json(&changed);
        r["root_fd"] = json!(ctx.root_raw);
        r["wpid"] = json!(unsafe { libc::getpid() });
        r["wuid"] = json!(worker_uid());
        let mut lent = vec![ctx.root_raw];
        if let Some(of) = c.get("of").and_then(|v| v.as_u64()) {
            if let Some(Some(fd)) = ctx.kept.get(of as usize) {
                lent.push(fd.as_raw_fd());
            }
        }
        r["lent"] = json!(lent);
        results.push(r);
        if poisoned {
            break;
        }
    }
    // returned descriptors stay open until here so that inode numbers cannot be recycled
    let out = json!({"results": results, "poisoned": poisoned});
    if close0 && saved0 >= 0 {
        // give descriptor 0 back; if the library was handed fd 0 for something it still holds,
        // move that object out of the way first
        if let Some(r) = ctx.root.as_ref() {
            let _ = r;
        }
        for k in ctx.kept.iter_mut() {
            if let Some(fd) = k.as_ref() {
                if fd.as_raw_fd() == 0 {
                    let moved = unsafe { libc::fcntl(0, libc::F_DUPFD_CLOEXEC, 210) };
                    let old = k.take();
                    std::mem::forget(old);
                    if moved >= 0 {
                        *k = Some(unsafe { std::os::unix::io::OwnedFd::from_raw_fd(moved) });
                    }
                }
            }
        }
        if ctx.root_raw == 0 {
            // the root itself got fd 0: drop it before restoring
            ctx.root = None;
        }
        unsafe {
            libc::dup2(saved0, 0);
            libc::close(saved0);
        }
    }
    (out, Some(ctx))
}
