//! The worker: a forked child that executes cases against the real library.
//! Protocol: one JSON line per case on the request pipe, one JSON line back on the response pipe,
//! then the marker "DONE" (seen by a tracer, harmless otherwise).

use crate::ops::{exec_call, marker, Ctx};
use pathrs::Root;
use serde_json::{json, Value};
use std::io::{BufRead, BufReader, Write};
use std::os::unix::io::{AsRawFd, FromRawFd};

fn list_fds() -> Vec<(i32, u64, u64, bool, i64)> {
    // (fd, dev, ino, cloexec, f_type); uses getdents on /proc/self/fd through libc directly
    let mut out = Vec::new();
    let path = std::ffi::CString::new(format!("/proc/{}/fd", unsafe { libc::getpid() })).unwrap();
    let dir = unsafe { libc::opendir(path.as_ptr()) };
    if dir.is_null() {
        return out;
    }
    let dfd = unsafe { libc::dirfd(dir) };
    loop {
        let ent = unsafe { libc::readdir(dir) };
        if ent.is_null() {
            break;
        }
        let name = unsafe { std::ffi::CStr::from_ptr((*ent).d_name.as_ptr()) }.to_string_lossy().to_string();
        if let Ok(n) = name.parse::<i32>() {
            if n == dfd {
                continue;
            }
            let mut st: libc::stat = unsafe { std::mem::zeroed() };
            if unsafe { libc::fstat(n, &mut st) } != 0 {
                continue;
            }
            let fdfl = unsafe { libc::fcntl(n, libc::F_GETFD) };
            let mut sfs: libc::statfs = unsafe { std::mem::zeroed() };
            let ft = if unsafe { libc::fstatfs(n, &mut sfs) } == 0 { sfs.f_type as i64 } else { -1 };
            out.push((n, st.st_dev, st.st_ino, fdfl >= 0 && (fdfl & libc::FD_CLOEXEC) != 0, ft));
        }
    }
    unsafe { libc::closedir(dir) };
    out.sort();
    out
}

fn fds_json(v: &[(i32, u64, u64, bool, i64)]) -> Value {
    Value::Array(
        v.iter()
            .map(|(n, d, i, c, ft)| json!({"fd": n, "dev": d, "ino": i, "cloexec": c, "ftype": ft, "procroot": *ft == 0x9fa0 && *i == 1}))
            .collect(),
    )
}

pub fn worker_main(req_fd: i32, resp_fd: i32, feat: &Value) -> ! {
    // feature mask first: everything the library does afterwards sees the masked kernel
    let mask = crate::seccomp::feature_mask(feat);
    if let Err(e) = crate::seccomp::mask_syscalls(&mask, libc::ENOSYS) {
        eprintln!("pv worker: seccomp failed: {e}");
        unsafe { libc::_exit(97) };
    }
    unsafe { libc::umask(0o022) };
    let req = unsafe { std::fs::File::from_raw_fd(req_fd) };
    let mut resp = unsafe { std::fs::File::from_raw_fd(resp_fd) };
    let mut rd = BufReader::new(req);
    let mut line = String::new();
    #[allow(unused_assignments)]
    let mut prev_ctx: Option<Ctx> = None;
    // silence the default panic message spam but keep location for reports
    std::panic::set_hook(Box::new(|info| {
        let loc = info.location().map(|l| format!("{}:{}", l.file(), l.line())).unwrap_or_default();
        LAST_PANIC_LOC.with(|c| *c.borrow_mut() = loc);
    }));
    loop {
        line.clear();
        match rd.read_line(&mut line) {
            Ok(0) | Err(_) => unsafe { libc::_exit(0) },
            Ok(_) => {}
        }
        let case: Value = match serde_json::from_str(&line) {
            Ok(v) => v,
            Err(e) => {
                let _ = writeln!(resp, "{}", json!({"error": format!("bad case json: {e}")}));
                marker("DONE");
                continue;
            }
        };
        // descriptors returned by the previous case stay open until the supervisor has mapped
        // their identities and taken its snapshot (it only sends the next case afterwards)
        prev_ctx = None;
        let (out, ctx) = run_case(&case);
        prev_ctx = ctx;
        let mut s = serde_json::to_string(&out).unwrap();
        s.push('\n');
        let _ = resp.write_all(s.as_bytes());
        let _ = resp.flush();
        marker("DONE");
        if out.get("poisoned").and_then(|v| v.as_bool()).unwrap_or(false) {
            // a panic may have poisoned process-global state: this worker must not be reused
            unsafe { libc::_exit(0) };
        }
    }
}

/// pid numbers are recycled over long runs: a worker is identified by (pid, start time)
fn worker_uid() -> String {
    static START: std::sync::OnceLock<String> = std::sync::OnceLock::new();
    START
        .get_or_init(|| {
            let mut ts: libc::timespec = unsafe { std::mem::zeroed() };
            unsafe { libc::clock_gettime(libc::CLOCK_MONOTONIC, &mut ts) };
            format!("{}-{}.{}", unsafe { libc::getpid() }, ts.tv_sec, ts.tv_nsec)
        })
        .clone()
}

thread_local! {
    static LAST_PANIC_LOC: std::cell::RefCell<String> = std::cell::RefCell::new(String::new());
}

fn run_case(case: &Value) -> (Value, Option<Ctx>) {
    let rootpath = case.get("rootpath").and_then(|v| v.as_str()).unwrap_or("");
    let calls = case.get("calls").and_then(|v| v.as_array()).cloned().unwrap_or_default();
    let myproc = case.get("myproc").and_then(|v| v.as_u64()).unwrap_or(0);

    // optional: make descriptor 0 free (after the root has been opened) so that the library's
    // next open gets descriptor number 0
    let close0 = case.get("close0").and_then(|v| v.as_bool()).unwrap_or(false);
    let mut saved0: i32 = -1;
    let mut ctx = Ctx { root: None, root_raw: -1, kept: Vec::new(), procfs: None };
    // the current directory of the worker is the scratch case directory (the root's parent), so
    // that anything resolved relative to the cwd by mistake shows up in the outside snapshot
    if !rootpath.is_empty() {
        let parent = std::path::Path::new(rootpath).parent().map(|p| p.to_path_buf());
        if let Some(p) = parent {
            let _ = std::env::set_current_dir(&p);
        }
    }
    if !rootpath.is_empty() {
        marker("OPENROOT");
        match Root::open(rootpath) {
            Ok(r) => {
                ctx.root_raw = std::os::unix::io::AsFd::as_fd(&r).as_raw_fd();
                ctx.root = Some(r);
            }
            Err(e) => {
                marker("END");
                return (json!({"error": format!("Root::open failed: {e}")}), None);
            }
        }
        marker("END");
    }
    if close0 {
        saved0 = unsafe { libc::fcntl(0, libc::F_DUPFD_CLOEXEC, 200) };
        unsafe { libc::close(0) };
    }
    let mut results: Vec<Value> = Vec::new();
    let mut poisoned = false;
    for (idx, c) in calls.iter().enumerate() {
        if c.get("proc").and_then(|v| v.as_u64()).unwrap_or(0) != myproc {
            results.push(json!({"skip": "other proc"}));
            continue;
        }
        let mut c = c.clone();
        if c.get("op").and_then(|v| v.as_str()) == Some("reopen_in_thread") {
            c["rootpath_abs"] = json!(rootpath);
        }
        let c = &c;
        let before = list_fds();
        LAST_PANIC_LOC.with(|c| c.borrow_mut().clear());
        let mut r = exec_call(&mut ctx, idx, c);
        let after = list_fds();
        if r.get("panic").is_some() {
            poisoned = true;
            r["panic_loc"] = json!(LAST_PANIC_LOC.with(|c| c.borrow().clone()));
        }
        // descriptor accounting (C11): what appeared / disappeared / changed identity
        let mut opened = Vec::new();
        let mut closed = Vec::new();
        let mut changed = Vec::new();
        for a in &after {
            match before.iter().find(|b| b.0 == a.0) {
                None => opened.push(*a),
                Some(b) => {
                    if (b.1, b.2) != (a.1, a.2) {
                        changed.push(*a);
                    }
                }
            }
        }
        for b in &before {
            if !after.iter().any(|a| a.0 == b.0) {
                closed.push(*b);
            }
        }
        if r.get("ret_is_new_fd").is_some() && opened.len() == 1 {
            r["fd"] = json!(opened[0].0);
        }
        r["fds_opened"] = fds_json(&opened);
        r["fds_closed"] = fds_json(&closed);
        r["fds_changed"] = fds_json(&changed);
        r["root_fd"] = json!(ctx.root_raw);
        r["wpid"] = json!(unsafe { libc::getpid() });
        r["wuid"] = json!(worker_uid());
        let mut lent = vec![ctx.root_raw];
        if let Some(of) = c.get("of").and_then(|v| v.as_u64()) {
            if let Some(Some(fd)) = ctx.kept.get(of as usize) {
                lent.push(fd.as_raw_fd());
            }
        }
        r["lent"] = json!(lent);
        results.push(r);
        if poisoned {
            break;
        }
    }
    // returned descriptors stay open until here so that inode numbers cannot be recycled
    let out = json!({"results": results, "poisoned": poisoned});
    if close0 && saved0 >= 0 {
        // give descriptor 0 back; if the library was handed fd 0 for something it still holds,
        // move that object out of the way first
        if let Some(r) = ctx.root.as_ref() {
            let _ = r;
        }
        for k in ctx.kept.iter_mut() {
            if let Some(fd) = k.as_ref() {
                if fd.as_raw_fd() == 0 {
                    let moved = unsafe { libc::fcntl(0, libc::F_DUPFD_CLOEXEC, 210) };
                    let old = k.take();
                    std::mem::forget(old);
                    if moved >= 0 {
                        *k = Some(unsafe { std::os::unix::io::OwnedFd::from_raw_fd(moved) });
                    }
                }
            }
        }
        if ctx.root_raw == 0 {
            // the root itself got fd 0: drop it before restoring
            ctx.root = None;
        }
        unsafe {
            libc::dup2(saved0, 0);
            libc::close(saved0);
        }
    }
    (out, Some(ctx))
}
