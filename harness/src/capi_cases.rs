//! C17 drivers: one argument-validation case / one readlink copy-contract case against the C ABI.

use crate::ops::*;
use serde_json::{json, Value};
use std::ffi::CString;
use std::os::raw::{c_char, c_int, c_uint};

const PROC_SELF: u64 = 0x091D_5E1F;

pub fn arg_case(rootfd: i32, c: &Value) -> Value {
    let f = c.get("f").and_then(|v| v.as_str()).unwrap_or("");
    let cls = c.get("cls").and_then(|v| v.as_str()).unwrap_or("");
    let val = c.get("val").and_then(|v| v.as_i64()).unwrap_or(0);
    let which = c.get("which").and_then(|v| v.as_i64()).unwrap_or(0);
    let modecls = c.get("mode").and_then(|v| v.as_str()).unwrap_or("");
    let fd: c_int = if cls == "badfd" { val as c_int } else { rootfd };
    let hi = c.get("hi").and_then(|v| v.as_i64()).unwrap_or(0);
    let base: u64 = if cls == "badbase" { ((hi as i32 as u32 as u64) << 32) | (val as i32 as u32 as u64) } else { PROC_SELF };
    let p1s = CString::new(c.get("p1").and_then(|v| v.as_str()).unwrap_or("argcase_new")).unwrap();
    let p2s = CString::new(c.get("p2").and_then(|v| v.as_str()).unwrap_or("argcase_second")).unwrap();
    let p1: *const c_char = if cls == "nullpath" && which == 1 { std::ptr::null() } else { p1s.as_ptr() };
    let p2: *const c_char = if cls == "nullpath" && which == 2 { std::ptr::null() } else { p2s.as_ptr() };
    let mode: c_uint = match modecls {
        "mknod-ifmt-all" => libc::S_IFMT | 0o644,
        "mknod-iflnk" => libc::S_IFLNK | 0o644,
        "mknod-bad-type" => 0o030000 | 0o644,
        "mkdir_all-setuid" => 0o4755,
        "mkdir_all-type-bits" => libc::S_IFDIR | 0o755,
        "mkdir_all-high-bits" => 0o200000 | 0o755,
        _ => 0o644,
    };
    let mut buf = vec![0x5Au8; 64];
    let before = buf.clone();
    marker("BEGIN 0");
    let ret: c_int = unsafe {
        match f {
            "open_root" => pathrs_open_root(p1),
            "reopen" => pathrs_reopen(fd, libc::O_RDONLY),
            "inroot_resolve" => pathrs_inroot_resolve(fd, p1),
            "inroot_resolve_nofollow" => pathrs_inroot_resolve_nofollow(fd, p1),
            "inroot_open" => pathrs_inroot_open(fd, p1, libc::O_RDONLY),
            "inroot_readlink" => pathrs_inroot_readlink(fd, p1, buf.as_mut_ptr() as *mut c_char, buf.len()),
            "inroot_rename" => pathrs_inroot_rename(fd, p1, p2, 0),
            "inroot_rmdir" => pathrs_inroot_rmdir(fd, p1),
            "inroot_unlink" => pathrs_inroot_unlink(fd, p1),
            "inroot_remove_all" => pathrs_inroot_remove_all(fd, p1),
            "inroot_creat" => pathrs_inroot_creat(fd, p1, libc::O_RDWR, mode),
            "inroot_mkdir" => pathrs_inroot_mkdir(fd, p1, 0o755),
            "inroot_mkdir_all" => pathrs_inroot_mkdir_all(fd, p1, if modecls.is_empty() { 0o755 } else { mode }),
            "inroot_mknod" => pathrs_inroot_mknod(fd, p1, if modecls.is_empty() { libc::S_IFREG | 0o644 } else { mode }, 0),
            "inroot_symlink" => pathrs_inroot_symlink(fd, p1, p2),
            "inroot_hardlink" => pathrs_inroot_hardlink(fd, p1, p2),
            "proc_open" => pathrs_proc_open(base, p1, libc::O_RDONLY | libc::O_NOFOLLOW),
            "proc_readlink" => pathrs_proc_readlink(base, p1, buf.as_mut_ptr() as *mut c_char, buf.len()),
            _ => 0,
        }
    };
    marker("END");
    let mut out = json!({"ret": ret, "is_errid": ret < -4095, "buf_untouched": buf == before});
    if ret < 0 {
        let e = capi_error(ret);
        out["errno"] = e.get("errno").cloned().unwrap_or(json!(null));
        out["msg"] = e.get("msg").cloned().unwrap_or(json!(""));
        out["errorinfo_null"] = json!(e.get("errorinfo").map(|v| v.is_null()).unwrap_or(false));
        out["ok"] = json!(false);
    } else {
        out["ok"] = json!(true);
        if matches!(f, "open_root" | "reopen" | "inroot_resolve" | "inroot_resolve_nofollow" | "inroot_open" | "inroot_creat" | "inroot_mkdir_all" | "proc_open") {
            // a descriptor came back although the arguments were invalid: close it again
            unsafe { libc::close(ret) };
        }
    }
    // the lent root descriptor must still be open and still be the same object
    let mut st: libc::stat = unsafe { std::mem::zeroed() };
    out["rootfd_alive"] = json!(unsafe { libc::fstat(rootfd, &mut st) } == 0);
    out["root_dev"] = json!(st.st_dev);
    out["root_ino"] = json!(st.st_ino);
    out
}

pub fn copy_case(rootfd: i32, c: &Value) -> Value {
    let path = CString::new(c.get("path").and_then(|v| v.as_str()).unwrap_or("lnk")).unwrap();
    let b = c.get("B").and_then(|v| v.as_i64()).unwrap_or(-1);
    let proc_ = c.get("proc").and_then(|v| v.as_bool()).unwrap_or(false);
    let pad = 64usize;
    let total = if b < 0 { 0 } else { b as usize };
    let mut mem = vec![0xA5u8; total + 2 * pad];
    let ptr = if b < 0 { std::ptr::null_mut() } else { unsafe { mem.as_mut_ptr().add(pad) as *mut c_char } };
    // a NULL buffer may be passed together with any size
    let passed = if b < 0 { c.get("nullsize").and_then(|v| v.as_u64()).unwrap_or(0) as usize } else { total };
    marker("BEGIN 0");
    let r = unsafe {
        if proc_ { pathrs_proc_readlink(PROC_SELF, path.as_ptr(), ptr, passed) } else { pathrs_inroot_readlink(rootfd, path.as_ptr(), ptr, passed) }
    };
    marker("END");
    if r < 0 {
        let mut v = capi_error(r);
        v["canary_ok"] = json!(mem.iter().all(|x| *x == 0xA5));
        return v;
    }
    let n = std::cmp::min(r as usize, total);
    let hex: String = mem[pad..pad + n].iter().map(|b| format!("{:02x}", b)).collect();
    json!({"ok": true, "ret": r, "copied": String::from_utf8_lossy(&mem[pad..pad + n]), "copied_hex": hex, "ncopied_region": n,
           "tail_untouched": mem[pad + n..pad + total].iter().all(|x| *x == 0xA5),
           "canary_ok": mem[..pad].iter().all(|x| *x == 0xA5) && mem[pad + total..].iter().all(|x| *x == 0xA5)})
}
