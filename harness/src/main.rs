mod capi_cases;
mod errtab;
mod ops;
mod seccomp;
mod sup;
mod tree;
mod worker;

use serde_json::Value;
use std::io::{BufRead, BufReader, Write};

fn usage() -> ! {
    eprintln!("usage: pv exec <cases.ndjson> <out.ndjson> [jobs]");
    std::process::exit(2);
}

/// Run a list of cases in this process (one shard): own mount namespace, own tmpfs.
fn run_shard(cases: &[String], out_path: &str, tag: &str) -> i32 {
    sup::install_alarm();
    let base = match sup::private_scratch(tag) {
        Ok(b) => b,
        Err(e) => {
            eprintln!("pv: cannot set up scratch: {e}");
            return 2;
        }
    };
    let mut out = std::io::BufWriter::new(std::fs::File::create(out_path).expect("create out"));
    let mut shard = sup::Shard::new(base.clone());
    for line in cases {
        let case: Value = match serde_json::from_str(line) {
            Ok(v) => v,
            Err(e) => {
                eprintln!("pv: bad case: {e}");
                continue;
            }
        };
        let r = shard.run_case(&case);
        let _ = writeln!(out, "{}", serde_json::to_string(&r).unwrap());
    }
    let _ = out.flush();
    drop(shard);
    sup::remove_scratch(&base);
    0
}

fn main() {
    let args: Vec<String> = std::env::args().collect();
    if args.len() < 2 {
        usage();
    }
    match args[1].as_str() {
        "exec" => {
            if args.len() < 4 {
                usage();
            }
            let jobs: usize = args.get(4).and_then(|s| s.parse().ok()).unwrap_or(1);
            let f = BufReader::new(std::fs::File::open(&args[2]).expect("open cases"));
            let cases: Vec<String> = f.lines().filter_map(|l| l.ok()).filter(|l| !l.trim().is_empty()).collect();
            if jobs <= 1 {
                std::process::exit(run_shard(&cases, &args[3], "0"));
            }
            // contiguous shards keep cases with the same feature set together
            let n = cases.len();
            let per = (n + jobs - 1) / jobs.max(1);
            let mut pids = Vec::new();
            let mut parts = Vec::new();
            for j in 0..jobs {
                let lo = j * per;
                if lo >= n {
                    break;
                }
                let hi = std::cmp::min(n, lo + per);
                let part = format!("{}.part{}", args[3], j);
                parts.push(part.clone());
                let pid = unsafe { libc::fork() };
                if pid == 0 {
                    let rc = run_shard(&cases[lo..hi], &part, &format!("{j}"));
                    unsafe { libc::_exit(rc) };
                }
                pids.push(pid);
            }
            let mut rc = 0;
            for pid in pids {
                let mut st = 0;
                unsafe { libc::waitpid(pid, &mut st, 0) };
                if !(libc::WIFEXITED(st) && libc::WEXITSTATUS(st) == 0) {
                    rc = 2;
                }
            }
            let mut out = std::fs::File::create(&args[3]).expect("create out");
            for p in parts {
                if let Ok(b) = std::fs::read(&p) {
                    let _ = out.write_all(&b);
                }
                let _ = std::fs::remove_file(&p);
            }
            std::process::exit(rc);
        }
        _ => usage(),
    }
}
