//! C16 drivers: concurrent failing C-API calls whose error ids are consumed on other threads
//! (call/return intervals stamped from one atomic counter), and the "birthday" run that keeps a
//! large number of ids outstanding so that id collisions in store_error actually occur.

use crate::ops::{pathrs_errorinfo, pathrs_errorinfo_free, pathrs_inroot_mknod, pathrs_inroot_open, pathrs_inroot_resolve, pathrs_open_root, pathrs_proc_open};
use serde_json::{json, Value};
use std::ffi::CString;
use std::sync::atomic::{AtomicU64, Ordering};
use std::sync::mpsc;
use std::sync::{Arc, Mutex};

static SEQ: AtomicU64 = AtomicU64::new(1);
fn seq() -> u64 {
    SEQ.fetch_add(1, Ordering::SeqCst)
}

/// one failing call of the given kind; returns (id, expected errno)
fn fail(kind: &str, t: usize, k: usize) -> (i32, u64) {
    match kind {
        "enoent" => {
            let p = CString::new(format!("/nonexistent-pv/tag-{}-{}-x", t, k)).unwrap();
            (unsafe { pathrs_open_root(p.as_ptr()) }, libc::ENOENT as u64)
        }
        "enotdir" => {
            let p = CString::new(format!("/proc/self/status/tag-{}-{}-x", t, k)).unwrap();
            (unsafe { pathrs_open_root(p.as_ptr()) }, libc::ENOTDIR as u64)
        }
        "ebadf" => {
            // a non-negative descriptor number that is not open: the failing system call says EBADF
            let p = CString::new(format!("tag-{}-{}-x", t, k)).unwrap();
            (unsafe { pathrs_inroot_resolve(987_654, p.as_ptr()) }, libc::EBADF as u64)
        }
        "enosys" => {
            // sockets cannot be created through mknod: ErrorKind::NotImplemented -> ENOSYS
            let p = CString::new(format!("tag-{}-{}-x", t, k)).unwrap();
            let root = unsafe { libc::open(b"/dev/shm\0".as_ptr() as *const _, libc::O_PATH | libc::O_DIRECTORY | libc::O_CLOEXEC) };
            let r = unsafe { pathrs_inroot_mknod(root, p.as_ptr(), libc::S_IFSOCK | 0o644, 0) };
            unsafe { libc::close(root) };
            (r, libc::ENOSYS as u64)
        }
        "exdev" => {
            // a procfs lookup that tries to leave through "..": refused as an attack -> EXDEV
            let p = CString::new(format!("../tag-{}-{}-x", t, k)).unwrap();
            (unsafe { pathrs_proc_open(0x091D5E1F, p.as_ptr(), libc::O_RDONLY | libc::O_NOFOLLOW) }, libc::EXDEV as u64)
        }
        "einval_flags" => {
            let p = CString::new(format!("tag-{}-{}-x", t, k)).unwrap();
            // O_CREAT is not allowed for the one-shot open: InvalidArgument -> EINVAL
            let root = unsafe { libc::open(b"/\0".as_ptr() as *const _, libc::O_PATH | libc::O_DIRECTORY | libc::O_CLOEXEC) };
            let r = unsafe { pathrs_inroot_open(root, p.as_ptr(), libc::O_CREAT | libc::O_RDWR) };
            unsafe { libc::close(root) };
            (r, libc::EINVAL as u64)
        }
        _ => {
            let p = CString::new(format!("tag-{}-{}-x", t, k)).unwrap();
            (unsafe { pathrs_inroot_resolve(-1, p.as_ptr()) }, libc::EINVAL as u64)
        }
    }
}

fn consume(id: i32) -> Option<(u64, String)> {
    let info = unsafe { pathrs_errorinfo(id) };
    if info.is_null() {
        return None;
    }
    let (e, d) = unsafe {
        let i = &*info;
        let d = if i.description.is_null() { String::new() } else { std::ffi::CStr::from_ptr(i.description).to_string_lossy().to_string() };
        (i.saved_errno, d)
    };
    unsafe { pathrs_errorinfo_free(info) };
    Some((e, d))
}

fn tag_of(desc: &str) -> i64 {
    // "...tag-<t>-<k>-x..."
    if let Some(pos) = desc.find("tag-") {
        let rest = &desc[pos + 4..];
        let mut it = rest.split('-');
        if let (Some(a), Some(b)) = (it.next(), it.next()) {
            if let (Ok(t), Ok(k)) = (a.parse::<i64>(), b.parse::<i64>()) {
                return t * 1000 + k + 1;
            }
        }
    }
    -1
}

pub fn concurrent(c: &Value) -> Value {
    let nthreads = c.get("threads").and_then(|v| v.as_u64()).unwrap_or(3) as usize;
    let nops = c.get("ops").and_then(|v| v.as_u64()).unwrap_or(3) as usize;
    let kinds: Vec<String> = c.get("kinds").and_then(|v| v.as_array()).map(|a| a.iter().filter_map(|x| x.as_str().map(|s| s.to_string())).collect()).unwrap_or_else(|| vec!["enoent".into()]);
    let events: Arc<Mutex<Vec<Value>>> = Arc::new(Mutex::new(Vec::new()));
    let mut txs = Vec::new();
    let mut rxs = Vec::new();
    for _ in 0..nthreads {
        let (tx, rx) = mpsc::channel::<(i32, i64, u64)>();
        txs.push(tx);
        rxs.push(Some(rx));
    }
    let mut handles = Vec::new();
    for t in 0..nthreads {
        let txs: Vec<_> = txs.iter().cloned().collect();
        let rx = rxs[t].take().unwrap();
        let events = events.clone();
        let kinds = kinds.clone();
        handles.push(std::thread::spawn(move || {
            let mut local: Vec<Value> = Vec::new();
            let mut expect_in = nops; // every thread receives exactly nops ids (round robin)
            for k in 0..nops {
                let kind = &kinds[(t + k) % kinds.len()];
                let s = seq();
                let (id, errno) = fail(kind, t, k);
                let e = seq();
                let tag = (t as i64) * 1000 + k as i64 + 1;
                local.push(json!({"ev": "fail", "t": t, "start": s, "end": e, "id": id, "tag": tag, "kind": kind, "errno": errno}));
                let _ = txs[(t + 1 + k) % txs.len()].send((id, tag, errno));
                // consume whatever has arrived so far
                while let Ok((cid, ctag, cerrno)) = rx.try_recv() {
                    expect_in -= 1;
                    consume_one(t, cid, ctag, cerrno, &mut local);
                }
            }
            while expect_in > 0 {
                match rx.recv_timeout(std::time::Duration::from_secs(5)) {
                    Ok((cid, ctag, cerrno)) => {
                        expect_in -= 1;
                        consume_one(t, cid, ctag, cerrno, &mut local);
                    }
                    Err(_) => break,
                }
            }
            events.lock().unwrap().extend(local);
        }));
    }
    drop(txs);
    for h in handles {
        let _ = h.join();
    }
    let mut ev = events.lock().unwrap().clone();
    ev.sort_by_key(|e| e["start"].as_u64().unwrap_or(0));
    json!({"ok": true, "history": ev})
}

fn consume_one(t: usize, id: i32, tag: i64, errno: u64, local: &mut Vec<Value>) {
    let s = seq();
    let r = consume(id);
    let e = seq();
    let (got_tag, got_errno, desc_ok) = match &r {
        None => (0i64, 0u64, false),
        Some((en, d)) => {
            let tg = tag_of(d);
            (if tg == -1 { if *en == errno { tag } else { -1 } } else { tg }, *en, !d.is_empty())
        }
    };
    // second consumption must find nothing (the id could in principle have been reused by a
    // later failure: that is reported as "reused", not as a violation)
    let again = consume(id);
    local.push(json!({"ev": "cons", "t": t, "start": s, "end": e, "id": id, "tag": tag, "got": got_tag, "errno": got_errno, "want_errno": errno,
                      "desc_ok": desc_ok, "second_null": again.is_none()}));
}

/// Several threads consume the SAME id at the same moment (barrier): at most one of them may get the error.
/// Only rounds in which the property is at stake are returned in full (those with more than one winner) plus a
/// few ordinary ones; the counters cover all rounds.
pub fn race_same(c: &Value) -> Value {
    let nthreads = c.get("threads").and_then(|v| v.as_u64()).unwrap_or(4) as usize;
    let rounds = c.get("rounds").and_then(|v| v.as_u64()).unwrap_or(2000) as usize;
    let mut history: Vec<Value> = Vec::new();
    let mut multi = 0u64;
    let mut none = 0u64;
    for r in 0..rounds {
        let s = seq();
        let (id, errno) = fail("enoent", 0, r);
        let e = seq();
        let tag = (r as i64) + 1;
        let barrier = Arc::new(std::sync::Barrier::new(nthreads));
        let mut hs = Vec::new();
        for t in 0..nthreads {
            let b = barrier.clone();
            hs.push(std::thread::spawn(move || {
                b.wait();
                let s = seq();
                let got = consume(id);
                let e = seq();
                (t, s, e, got)
            }));
        }
        let outs: Vec<_> = hs.into_iter().filter_map(|h| h.join().ok()).collect();
        let winners = outs.iter().filter(|o| o.3.is_some()).count();
        if winners > 1 {
            multi += 1;
        }
        if winners == 0 {
            none += 1;
        }
        if winners != 1 && history.len() < 400 || r < 3 {
            history.push(json!({"ev": "fail", "t": 0, "start": s, "end": e, "id": id, "tag": tag, "kind": "enoent", "errno": errno}));
            for (t, s, e, got) in outs {
                let (g, en) = match &got {
                    None => (0i64, 0u64),
                    Some((en, _)) => (tag, *en),
                };
                history.push(json!({"ev": "cons", "t": t + 1, "start": s, "end": e, "id": id, "tag": tag, "got": g, "errno": en, "want_errno": errno, "desc_ok": got.is_some(), "second_null": true}));
            }
        }
    }
    json!({"ok": true, "history": history, "rounds": rounds, "multi_winner_rounds": multi, "no_winner_rounds": none})
}

pub fn birthday(c: &Value) -> Value {
    let n = c.get("n").and_then(|v| v.as_u64()).unwrap_or(100_000) as usize;
    let mut ids: Vec<i32> = Vec::with_capacity(n);
    for k in 0..n {
        let (id, _) = fail("einval_fd", 0, k);
        ids.push(id);
    }
    let min = *ids.iter().min().unwrap_or(&0);
    let max = *ids.iter().max().unwrap_or(&0);
    let mut sorted = ids.clone();
    sorted.sort();
    let mut dups = 0usize;
    let mut dup_sample: Vec<i32> = Vec::new();
    for w in sorted.windows(2) {
        if w[0] == w[1] {
            dups += 1;
            if dup_sample.len() < 3 {
                dup_sample.push(w[0]);
            }
        }
    }
    // consume everything: every id must yield exactly one error
    let mut first_ok = 0usize;
    let mut wrong = 0usize;
    for (k, id) in ids.iter().enumerate() {
        match consume(*id) {
            Some((en, d)) => {
                if en == libc::EINVAL as u64 && (tag_of(&d) == -1 || true) {
                    first_ok += 1;
                } else {
                    wrong += 1;
                }
            }
            None => {
                // NULL on first consumption: an earlier duplicate already took it, or the error was lost
                let _ = k;
            }
        }
    }
    let mut second_non_null = 0usize;
    for id in ids.iter().take(2000) {
        if consume(*id).is_some() {
            second_non_null += 1;
        }
    }
    json!({"ok": true, "n": n, "min": min, "max": max, "dups": dups, "dup_sample": dup_sample, "first_ok": first_ok, "wrong": wrong, "second_non_null": second_non_null})
}
