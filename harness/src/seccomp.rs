//! Hook-free kernel feature masks: a seccomp-BPF filter that answers ENOSYS for a list of
//! syscall numbers (openat2; fsopen/fsconfig/fsmount/open_tree for "no new mount API").

#[repr(C)]
struct SockFilter {
    code: u16,
    jt: u8,
    jf: u8,
    k: u32,
}
#[repr(C)]
struct SockFprog {
    len: u16,
    filter: *const SockFilter,
}

const BPF_LD_W_ABS: u16 = 0x20;
const BPF_JEQ_K: u16 = 0x15;
const BPF_RET_K: u16 = 0x06;
const SECCOMP_RET_ALLOW: u32 = 0x7fff_0000;
const SECCOMP_RET_ERRNO: u32 = 0x0005_0000;
const AUDIT_ARCH_X86_64: u32 = 0xC000_003E;

pub fn mask_syscalls(nrs: &[i64], errno: i32) -> Result<(), String> {
    if nrs.is_empty() {
        return Ok(());
    }
    let mut prog: Vec<SockFilter> = Vec::new();
    // arch check
    prog.push(SockFilter { code: BPF_LD_W_ABS, jt: 0, jf: 0, k: 4 });
    prog.push(SockFilter { code: BPF_JEQ_K, jt: 1, jf: 0, k: AUDIT_ARCH_X86_64 });
    prog.push(SockFilter { code: BPF_RET_K, jt: 0, jf: 0, k: SECCOMP_RET_ALLOW });
    prog.push(SockFilter { code: BPF_LD_W_ABS, jt: 0, jf: 0, k: 0 });
    for nr in nrs {
        prog.push(SockFilter { code: BPF_JEQ_K, jt: 0, jf: 1, k: *nr as u32 });
        prog.push(SockFilter { code: BPF_RET_K, jt: 0, jf: 0, k: SECCOMP_RET_ERRNO | (errno as u32 & 0xffff) });
    }
    prog.push(SockFilter { code: BPF_RET_K, jt: 0, jf: 0, k: SECCOMP_RET_ALLOW });
    let fprog = SockFprog { len: prog.len() as u16, filter: prog.as_ptr() };
    unsafe {
        if libc::prctl(libc::PR_SET_NO_NEW_PRIVS, 1, 0, 0, 0) != 0 {
            return Err(format!("PR_SET_NO_NEW_PRIVS: {}", crate::tree::errno()));
        }
        if libc::prctl(libc::PR_SET_SECCOMP, 2 /* SECCOMP_MODE_FILTER */, &fprog as *const SockFprog) != 0 {
            return Err(format!("PR_SET_SECCOMP: {}", crate::tree::errno()));
        }
    }
    Ok(())
}

pub fn feature_mask(feat: &serde_json::Value) -> Vec<i64> {
    let mut v = Vec::new();
    let get = |k: &str| feat.get(k).and_then(|x| x.as_bool()).unwrap_or(true);
    if !get("openat2") {
        v.push(libc::SYS_openat2);
    }
    if !get("newmount") {
        v.push(libc::SYS_fsopen);
        v.push(libc::SYS_fsconfig);
        v.push(libc::SYS_fsmount);
        v.push(libc::SYS_open_tree);
        v.push(libc::SYS_move_mount);
    }
    if !get("fsopen") {
        v.push(libc::SYS_fsopen);
    }
    if !get("statx") {
        v.push(libc::SYS_statx);
    }
    v
}
