//! Execution of one library call (Rust API or C ABI) and projection of its outcome.

use pathrs::error::{Error, ErrorKind};
use pathrs::flags::{OpenFlags, RenameFlags, ResolverFlags};
use pathrs::procfs::{ProcfsBase, ProcfsHandle};
use pathrs::{Handle, InodeType, Root};
use serde_json::{json, Value};
use std::ffi::CString;
use std::fs::Permissions;
use std::os::raw::{c_char, c_int, c_uint};
use std::os::unix::fs::PermissionsExt;
use std::os::unix::io::{AsFd, AsRawFd, BorrowedFd, FromRawFd, IntoRawFd, OwnedFd};
use std::panic::{catch_unwind, AssertUnwindSafe};

#[repr(C)]
pub struct CError {
    pub saved_errno: u64,
    pub description: *const c_char,
}

extern "C" {
    pub fn pathrs_open_root(path: *const c_char) -> c_int;
    pub fn pathrs_reopen(fd: c_int, flags: c_int) -> c_int;
    pub fn pathrs_inroot_resolve(root: c_int, path: *const c_char) -> c_int;
    pub fn pathrs_inroot_resolve_nofollow(root: c_int, path: *const c_char) -> c_int;
    pub fn pathrs_inroot_open(root: c_int, path: *const c_char, flags: c_int) -> c_int;
    pub fn pathrs_inroot_readlink(root: c_int, path: *const c_char, buf: *mut c_char, sz: usize) -> c_int;
    pub fn pathrs_inroot_rename(root: c_int, src: *const c_char, dst: *const c_char, flags: u32) -> c_int;
    pub fn pathrs_inroot_rmdir(root: c_int, path: *const c_char) -> c_int;
    pub fn pathrs_inroot_unlink(root: c_int, path: *const c_char) -> c_int;
    pub fn pathrs_inroot_remove_all(root: c_int, path: *const c_char) -> c_int;
    pub fn pathrs_inroot_creat(root: c_int, path: *const c_char, flags: c_int, mode: c_uint) -> c_int;
    pub fn pathrs_inroot_mkdir(root: c_int, path: *const c_char, mode: c_uint) -> c_int;
    pub fn pathrs_inroot_mkdir_all(root: c_int, path: *const c_char, mode: c_uint) -> c_int;
    pub fn pathrs_inroot_mknod(root: c_int, path: *const c_char, mode: c_uint, dev: libc::dev_t) -> c_int;
    pub fn pathrs_inroot_symlink(root: c_int, path: *const c_char, target: *const c_char) -> c_int;
    pub fn pathrs_inroot_hardlink(root: c_int, path: *const c_char, target: *const c_char) -> c_int;
    pub fn pathrs_proc_open(base: u64, path: *const c_char, flags: c_int) -> c_int;
    pub fn pathrs_proc_readlink(base: u64, path: *const c_char, buf: *mut c_char, sz: usize) -> c_int;
    pub fn pathrs_errorinfo(err_id: c_int) -> *mut CError;
    pub fn pathrs_errorinfo_free(ptr: *mut CError);
}

/// tell the (possible) tracer something; harmless EBADF otherwise
pub fn marker(tag: &str) {
    unsafe {
        libc::syscall(libc::SYS_write, -77i64, tag.as_ptr(), tag.len());
    }
}

fn kind_json(e: &Error) -> Value {
    let (kind, errno) = match e.kind() {
        ErrorKind::OsError(n) => ("OsError", n.unwrap_or(0)),
        ErrorKind::SafetyViolation => ("SafetyViolation", 0),
        ErrorKind::InvalidArgument => ("InvalidArgument", 0),
        ErrorKind::NotSupported => ("NotSupported", 0),
        ErrorKind::NotImplemented => ("NotImplemented", 0),
        ErrorKind::InternalError => ("InternalError", 0),
        _ => ("Other", 0),
    };
    let mut msg = format!("{}", e);
    {
        use std::error::Error as _;
        let mut cur: &dyn std::error::Error = e;
        while let Some(n) = cur.source() {
            msg.push_str(": ");
            msg.push_str(&n.to_string());
            cur = n;
        }
    }
    msg.truncate(300);
    json!({"ok": false, "kind": kind, "errno": errno, "msg": msg})
}

/// Describe an fd the library returned: identity, type, F_GETFL, F_GETFD.
pub fn describe_fd(fd: i32) -> Value {
    let mut st: libc::stat = unsafe { std::mem::zeroed() };
    let rc = unsafe { libc::fstat(fd, &mut st) };
    let fl = unsafe { libc::fcntl(fd, libc::F_GETFL) };
    let fdfl = unsafe { libc::fcntl(fd, libc::F_GETFD) };
    if rc != 0 {
        return json!({"ok": true, "fd": fd, "stat_errno": crate::tree::errno()});
    }
    let mut sfs: libc::statfs = unsafe { std::mem::zeroed() };
    let fstype = if unsafe { libc::fstatfs(fd, &mut sfs) } == 0 { sfs.f_type as i64 } else { -1 };
    let mut stx: libc::statx = unsafe { std::mem::zeroed() };
    let mnt = if unsafe { libc::statx(fd, b"\0".as_ptr() as *const c_char, libc::AT_EMPTY_PATH, 0x1000 /* STATX_MNT_ID */, &mut stx) } == 0 { stx.stx_mnt_id as i64 } else { -1 };
    // where the kernel says the descriptor points (d_path), read through the numeric /proc/<pid>/fd/<n> so that over-mounts
    // of /proc/self or /proc/thread-self cannot redirect the harness itself
    let fdpath = std::fs::read_link(format!("/proc/{}/task/{}/fd/{}", std::process::id(), unsafe { libc::syscall(libc::SYS_gettid) }, fd)).map(|p| p.to_string_lossy().to_string()).unwrap_or_default();
    json!({"ok": true, "fd": fd, "dev": st.st_dev, "ino": st.st_ino, "ft": crate::tree::kind_of(st.st_mode), "rawdev": st.st_dev, "rawino": st.st_ino,
           "mode": st.st_mode & 0o7777, "fl": fl, "cloexec": (fdfl & libc::FD_CLOEXEC) != 0, "nlink": st.st_nlink, "fstype": fstype, "mnt_id": mnt, "fdpath": fdpath})
}

pub struct Ctx {
    pub root: Option<Root>,
    pub root_raw: i32,
    /// fds returned by earlier calls of this case, by call index
    pub kept: Vec<Option<OwnedFd>>,
    pub procfs: Option<ProcfsHandle>,
}

fn oflags(v: &Value) -> OpenFlags {
    OpenFlags::from_bits_retain(v.as_i64().unwrap_or(0) as i32)
}

fn s<'a>(c: &'a Value, k: &str) -> &'a str {
    c.get(k).and_then(|v| v.as_str()).unwrap_or("")
}

/// a byte-string path with the two accessors kernel_openat2 used on its former &str argument
pub struct PathBytes(pub Vec<u8>);
impl PathBytes {
    pub fn as_bytes(&self) -> &[u8] {
        &self.0
    }
}
impl AsRef<std::ffi::OsStr> for PathBytes {
    fn as_ref(&self) -> &std::ffi::OsStr {
        std::os::unix::ffi::OsStrExt::from_bytes(&self.0)
    }
}

fn cs<S: AsRef<std::ffi::OsStr>>(x: S) -> CString {
    // paths with NUL: C strings end at the NUL, which is exactly what a C caller would pass
    let bytes: Vec<u8> = std::os::unix::ffi::OsStrExt::as_bytes(x.as_ref()).iter().copied().take_while(|b| *b != 0).collect();
    CString::new(bytes).unwrap()
}

fn capi_result_fd(ret: c_int) -> Value {
    if ret >= 0 {
        describe_fd(ret)
    } else {
        capi_error(ret)
    }
}

pub fn capi_error(ret: c_int) -> Value {
    let info = unsafe { pathrs_errorinfo(ret) };
    if info.is_null() {
        return json!({"ok": false, "capi_id": ret, "errorinfo": null});
    }
    let (errno, desc) = unsafe {
        let e = &*info;
        let d = if e.description.is_null() {
            String::new()
        } else {
            std::ffi::CStr::from_ptr(e.description).to_string_lossy().to_string()
        };
        (e.saved_errno, d)
    };
    let again = unsafe { pathrs_errorinfo(ret) };
    let second_null = again.is_null();
    if !again.is_null() {
        unsafe { pathrs_errorinfo_free(again) };
    }
    unsafe { pathrs_errorinfo_free(info) };
    let mut d = desc;
    d.truncate(300);
    json!({"ok": false, "capi_id": ret, "errno": errno, "msg": d, "second_null": second_null})
}

fn base_of(v: &str) -> ProcfsBase {
    match v {
        "root" => ProcfsBase::ProcRoot,
        "self" => ProcfsBase::ProcSelf,
        _ => ProcfsBase::ProcThreadSelf,
    }
}

fn inode_type(c: &Value) -> InodeType {
    let mode = c.get("mode").and_then(|v| v.as_u64()).unwrap_or(0o644) as u32;
    let perm = Permissions::from_mode(mode);
    match s(c, "kind") {
        "dir" => InodeType::Directory(perm),
        "lnk" => InodeType::Symlink(s(c, "target").into()),
        "hard" => InodeType::Hardlink(s(c, "target").into()),
        "fifo" => InodeType::Fifo(perm),
        "chr" => InodeType::CharacterDevice(perm, libc::makedev(1, 3)),
        "blk" => InodeType::BlockDevice(perm, libc::makedev(7, 0)),
        _ => InodeType::File(perm),
    }
}

fn from_fd_result<T: Into<OwnedFd>>(r: Result<T, Error>, keep: &mut Option<OwnedFd>) -> Value {
    match r {
        Ok(h) => {
            let fd: OwnedFd = h.into();
            let v = describe_fd(fd.as_raw_fd());
            *keep = Some(fd);
            v
        }
        Err(e) => kind_json(&e),
    }
}

fn unit_result(r: Result<(), Error>) -> Value {
    match r {
        Ok(()) => json!({"ok": true}),
        Err(e) => kind_json(&e),
    }
}

/// direct kernel reference: openat2(root, path, {flags, IN_ROOT|NO_MAGICLINKS|rflags})
pub fn kernel_openat2<S: AsRef<std::ffi::OsStr>>(rootfd: i32, path: S, flags: i64, resolve: u64, keep: &mut Option<OwnedFd>) -> Value {
    let path = std::os::unix::ffi::OsStrExt::as_bytes(path.as_ref()).to_vec();
    let path = PathBytes(path);
    #[repr(C)]
    struct How {
        flags: u64,
        mode: u64,
        resolve: u64,
    }
    if path.as_bytes().contains(&0) {
        return json!({"ok": false, "kind": "OsError", "errno": libc::EINVAL, "msg": "NUL"});
    }
    let how = How { flags: (flags as u64) | libc::O_CLOEXEC as u64, mode: 0, resolve };
    let p = cs(path);
    for _ in 0..32 {
        let fd = unsafe { libc::syscall(libc::SYS_openat2, rootfd, p.as_ptr(), &how as *const How, std::mem::size_of::<How>()) };
        if fd >= 0 {
            let o = unsafe { OwnedFd::from_raw_fd(fd as i32) };
            let v = describe_fd(fd as i32);
            *keep = Some(o);
            return v;
        }
        let e = crate::tree::errno();
        if e == libc::EAGAIN {
            continue;
        }
        return json!({"ok": false, "kind": "OsError", "errno": e});
    }
    json!({"ok": false, "kind": "OsError", "errno": libc::EAGAIN})
}

pub fn exec_call(ctx: &mut Ctx, idx: usize, c: &Value) -> Value {
    let mut keep: Option<OwnedFd> = None;
    // optional: perform the call with another effective (and thus filesystem) uid
    let euid = c.get("euid").and_then(|v| v.as_u64());
    if let Some(u) = euid {
        unsafe { libc::syscall(libc::SYS_setresuid, -1i64, u as i64, -1i64) };
    }
    let r = catch_unwind(AssertUnwindSafe(|| exec_call_inner(ctx, idx, c, &mut keep)));
    if euid.is_some() {
        unsafe { libc::syscall(libc::SYS_setresuid, -1i64, 0i64, -1i64) };
    }
    while ctx.kept.len() <= idx {
        ctx.kept.push(None);
    }
    ctx.kept[idx] = keep;
    match r {
        Ok(v) => v,
        Err(p) => {
            let msg = if let Some(s) = p.downcast_ref::<&str>() {
                s.to_string()
            } else if let Some(s) = p.downcast_ref::<String>() {
                s.clone()
            } else {
                "panic".to_string()
            };
            json!({"ok": false, "panic": msg})
        }
    }
}

fn exec_call_inner(ctx: &mut Ctx, idx: usize, c: &Value, keep: &mut Option<OwnedFd>) -> Value {
    let op = s(c, "op");
    let api = if s(c, "api") == "c" { "c" } else { "rust" };
    // paths are byte strings: "path_hex" carries bytes that are not valid UTF-8
    let path_owned: std::ffi::OsString = match c.get("path_hex").and_then(|v| v.as_str()) {
        Some(h) => std::os::unix::ffi::OsStringExt::from_vec((0..h.len() / 2).filter_map(|i| u8::from_str_radix(&h[2 * i..2 * i + 2], 16).ok()).collect()),
        None => s(c, "path").into(),
    };
    let path: &std::path::Path = std::path::Path::new(&path_owned);
    let tag = format!("BEGIN {}", idx);
    // the C ABI takes a raw descriptor number: cases may pass any value (negative, AT_FDCWD, ...)
    let rootraw = c.get("rootfd").and_then(|v| v.as_i64()).map(|x| x as i32).unwrap_or(ctx.root_raw);

    // resolver flags are a property of the Root in the Rust API
    let nosym = c.get("nosym").and_then(|v| v.as_bool()).unwrap_or(false);
    if let Some(root) = ctx.root.as_mut() {
        root.set_resolver_flags(if nosym { ResolverFlags::NO_SYMLINKS } else { ResolverFlags::empty() });
    }

    macro_rules! bracket {
        ($e:expr) => {{
            marker(&tag);
            let r = $e;
            marker("END");
            r
        }};
    }

    match (api, op) {
        // ------------------------------------------------------------------ lookups
        ("rust", "resolve") => {
            let root = ctx.root.as_ref().unwrap();
            let nofollow = c.get("nofollow").and_then(|v| v.as_bool()).unwrap_or(false);
            let r = bracket!(if nofollow { root.resolve_nofollow(path) } else { root.resolve(path) });
            from_fd_result(r, keep)
        }
        ("c", "resolve") => {
            let nofollow = c.get("nofollow").and_then(|v| v.as_bool()).unwrap_or(false);
            let p = cs(path);
            let r = bracket!(unsafe {
                if nofollow { pathrs_inroot_resolve_nofollow(rootraw, p.as_ptr()) } else { pathrs_inroot_resolve(rootraw, p.as_ptr()) }
            });
            let v = capi_result_fd(r);
            if r >= 0 {
                *keep = Some(unsafe { OwnedFd::from_raw_fd(r) });
            }
            v
        }
        ("rust", "open") => {
            let root = ctx.root.as_ref().unwrap();
            let r = bracket!(root.open_subpath(path, oflags(&c["oflags"])));
            from_fd_result(r, keep)
        }
        ("c", "open") => {
            let p = cs(path);
            let r = bracket!(unsafe { pathrs_inroot_open(rootraw, p.as_ptr(), c["oflags"].as_i64().unwrap_or(0) as c_int) });
            let v = capi_result_fd(r);
            if r >= 0 {
                *keep = Some(unsafe { OwnedFd::from_raw_fd(r) });
            }
            v
        }
        ("rust", "readlink") => {
            let root = ctx.root.as_ref().unwrap();
            match bracket!(root.readlink(path)) {
                Ok(p) => json!({"ok": true, "body": p.to_string_lossy()}),
                Err(e) => kind_json(&e),
            }
        }
        ("c", "readlink") => {
            let p = cs(path);
            let bufsz = c.get("bufsz").and_then(|v| v.as_i64()).unwrap_or(4096);
            // canaries around the caller buffer
            let pad = 64usize;
            let (ptr, total, mut mem): (*mut c_char, usize, Vec<u8>) = if bufsz < 0 {
                (std::ptr::null_mut(), 0, vec![0xA5u8; 2 * pad])
            } else {
                let total = bufsz as usize;
                let mut mem = vec![0xA5u8; total + 2 * pad];
                let ptr = unsafe { mem.as_mut_ptr().add(pad) } as *mut c_char;
                (ptr, total, mem)
            };
            let passed_size = c.get("passsz").and_then(|v| v.as_u64()).map(|x| x as usize).unwrap_or(total);
            let r = bracket!(unsafe { pathrs_inroot_readlink(rootraw, p.as_ptr(), ptr, passed_size) });
            let _ = &mut mem;
            if r >= 0 {
                let n = std::cmp::min(r as usize, total);
                let copied = String::from_utf8_lossy(&mem[pad..pad + n]).to_string();
                let tail_ok = mem[pad + n..pad + total].iter().all(|b| *b == 0xA5);
                let canary_ok = mem[..pad].iter().all(|b| *b == 0xA5) && mem[pad + total..].iter().all(|b| *b == 0xA5);
                json!({"ok": true, "len": r, "body": copied, "tail_ok": tail_ok, "canary_ok": canary_ok})
            } else {
                let canary_ok = mem.iter().all(|b| *b == 0xA5);
                let mut v = capi_error(r);
                v["canary_ok"] = json!(canary_ok);
                v
            }
        }
        ("rust", "kopen") => {
            // kernel reference, not a library call (no markers)
            let resolve = libc::RESOLVE_IN_ROOT | libc::RESOLVE_NO_MAGICLINKS | if nosym { libc::RESOLVE_NO_SYMLINKS } else { 0 };
            kernel_openat2(rootraw, path, c["oflags"].as_i64().unwrap_or(0), resolve, keep)
        }
        // ------------------------------------------------------------------ mutations
        ("rust", "create") => {
            let root = ctx.root.as_ref().unwrap();
            let it = inode_type(c);
            unit_result(bracket!(root.create(path, &it)))
        }
        ("c", "create") => {
            let p = cs(path);
            let mode = c.get("mode").and_then(|v| v.as_u64()).unwrap_or(0o644) as c_uint;
            let r = bracket!(unsafe {
                match s(c, "kind") {
                    "dir" => pathrs_inroot_mkdir(rootraw, p.as_ptr(), mode),
                    "lnk" => {
                        let t = cs(s(c, "target"));
                        pathrs_inroot_symlink(rootraw, p.as_ptr(), t.as_ptr())
                    }
                    "hard" => {
                        let t = cs(s(c, "target"));
                        pathrs_inroot_hardlink(rootraw, p.as_ptr(), t.as_ptr())
                    }
                    "fifo" => pathrs_inroot_mknod(rootraw, p.as_ptr(), libc::S_IFIFO | mode, 0),
                    "chr" => pathrs_inroot_mknod(rootraw, p.as_ptr(), libc::S_IFCHR | mode, libc::makedev(1, 3)),
                    "blk" => pathrs_inroot_mknod(rootraw, p.as_ptr(), libc::S_IFBLK | mode, libc::makedev(7, 0)),
                    "rawmode" => pathrs_inroot_mknod(rootraw, p.as_ptr(), mode, 0),
                    _ => pathrs_inroot_mknod(rootraw, p.as_ptr(), libc::S_IFREG | mode, 0),
                }
            });
            if r >= 0 { json!({"ok": true, "ret": r}) } else { capi_error(r) }
        }
        ("rust", "create_file") => {
            let root = ctx.root.as_ref().unwrap();
            let mode = c.get("mode").and_then(|v| v.as_u64()).unwrap_or(0o644) as u32;
            let r = bracket!(root.create_file(path, oflags(&c["oflags"]), &Permissions::from_mode(mode)));
            from_fd_result(r, keep)
        }
        ("c", "create_file") => {
            let p = cs(path);
            let mode = c.get("mode").and_then(|v| v.as_u64()).unwrap_or(0o644) as c_uint;
            let r = bracket!(unsafe { pathrs_inroot_creat(rootraw, p.as_ptr(), c["oflags"].as_i64().unwrap_or(0) as c_int, mode) });
            let v = capi_result_fd(r);
            if r >= 0 {
                *keep = Some(unsafe { OwnedFd::from_raw_fd(r) });
            }
            v
        }
        ("rust", "mkdir_all") => {
            let root = ctx.root.as_ref().unwrap();
            let mode = c.get("mode").and_then(|v| v.as_u64()).unwrap_or(0o755) as u32;
            let r = bracket!(root.mkdir_all(path, &Permissions::from_mode(mode)));
            from_fd_result(r, keep)
        }
        ("c", "mkdir_all") => {
            let p = cs(path);
            let mode = c.get("mode").and_then(|v| v.as_u64()).unwrap_or(0o755) as c_uint;
            let r = bracket!(unsafe { pathrs_inroot_mkdir_all(rootraw, p.as_ptr(), mode) });
            let v = capi_result_fd(r);
            if r >= 0 {
                *keep = Some(unsafe { OwnedFd::from_raw_fd(r) });
            }
            v
        }
        ("rust", "remove_file") => unit_result(bracket!(ctx.root.as_ref().unwrap().remove_file(path))),
        ("rust", "remove_dir") => unit_result(bracket!(ctx.root.as_ref().unwrap().remove_dir(path))),
        ("rust", "remove_all") => unit_result(bracket!(ctx.root.as_ref().unwrap().remove_all(path))),
        ("c", "remove_file") | ("c", "remove_dir") | ("c", "remove_all") => {
            let p = cs(path);
            let r = bracket!(unsafe {
                match op {
                    "remove_file" => pathrs_inroot_unlink(rootraw, p.as_ptr()),
                    "remove_dir" => pathrs_inroot_rmdir(rootraw, p.as_ptr()),
                    _ => pathrs_inroot_remove_all(rootraw, p.as_ptr()),
                }
            });
            if r >= 0 { json!({"ok": true, "ret": r}) } else { capi_error(r) }
        }
        ("rust", "rename") => {
            let root = ctx.root.as_ref().unwrap();
            let fl = RenameFlags::from_bits_retain(c.get("flags").and_then(|v| v.as_u64()).unwrap_or(0) as u32);
            unit_result(bracket!(root.rename(s(c, "src"), s(c, "dst"), fl)))
        }
        ("c", "rename") => {
            let a = cs(s(c, "src"));
            let b = cs(s(c, "dst"));
            let fl = c.get("flags").and_then(|v| v.as_u64()).unwrap_or(0) as u32;
            let r = bracket!(unsafe { pathrs_inroot_rename(rootraw, a.as_ptr(), b.as_ptr(), fl) });
            if r >= 0 { json!({"ok": true, "ret": r}) } else { capi_error(r) }
        }
        // ------------------------------------------------------------------ kernel reference mutation
        (_, "kmut") => {
            // "the corresponding *at system call applied to the final path component inside the
            // directory obtained by in-root resolution of the rest of the path", done by hand
            let mut kd: Option<OwnedFd> = None;
            let mut kd2: Option<OwnedFd> = None;
            let res = libc::RESOLVE_IN_ROOT | libc::RESOLVE_NO_MAGICLINKS;
            let d1 = kernel_openat2(rootraw, s(c, "dir"), libc::O_PATH as i64, res, &mut kd);
            if !d1["ok"].as_bool().unwrap_or(false) {
                return d1;
            }
            let dfd = kd.as_ref().unwrap().as_raw_fd();
            let name = cs(s(c, "name"));
            let mode = c.get("mode").and_then(|v| v.as_u64()).unwrap_or(0o644) as u32;
            let sys = s(c, "sys");
            let mut dfd2 = -1;
            if matches!(sys, "link" | "rename") {
                let d2 = kernel_openat2(rootraw, s(c, "dir2"), libc::O_PATH as i64, res, &mut kd2);
                if !d2["ok"].as_bool().unwrap_or(false) {
                    return d2;
                }
                dfd2 = kd2.as_ref().unwrap().as_raw_fd();
            }
            let name2 = cs(s(c, "name2"));
            let rc: i64 = unsafe {
                match sys {
                    "mknod" => libc::mknodat(dfd, name.as_ptr(), libc::S_IFREG | mode, 0) as i64,
                    "mkfifo" => libc::mknodat(dfd, name.as_ptr(), libc::S_IFIFO | mode, 0) as i64,
                    "mkchr" => libc::mknodat(dfd, name.as_ptr(), libc::S_IFCHR | mode, libc::makedev(1, 3)) as i64,
                    "mkblk" => libc::mknodat(dfd, name.as_ptr(), libc::S_IFBLK | mode, libc::makedev(7, 0)) as i64,
                    "mkdir" => libc::mkdirat(dfd, name.as_ptr(), mode) as i64,
                    "symlink" => {
                        let t = cs(s(c, "target"));
                        libc::symlinkat(t.as_ptr(), dfd, name.as_ptr()) as i64
                    }
                    // hardlink: (dir2, name2) is the existing object, (dir, name) the new entry
                    "link" => libc::linkat(dfd2, name2.as_ptr(), dfd, name.as_ptr(), 0) as i64,
                    "unlink" => libc::unlinkat(dfd, name.as_ptr(), 0) as i64,
                    "rmdir" => libc::unlinkat(dfd, name.as_ptr(), libc::AT_REMOVEDIR) as i64,
                    "rename" => libc::syscall(libc::SYS_renameat2, dfd, name.as_ptr(), dfd2, name2.as_ptr(), c.get("flags").and_then(|v| v.as_u64()).unwrap_or(0) as u32),
                    "creat" => {
                        let fl = c["oflags"].as_i64().unwrap_or(0) as i32 | libc::O_CREAT | libc::O_NOFOLLOW | libc::O_CLOEXEC | libc::O_NOCTTY;
                        libc::openat(dfd, name.as_ptr(), fl, mode) as i64
                    }
                    _ => -1,
                }
            };
            if rc < 0 {
                return json!({"ok": false, "kind": "OsError", "errno": crate::tree::errno()});
            }
            if sys == "creat" {
                let fd = rc as i32;
                let v = describe_fd(fd);
                *keep = Some(unsafe { OwnedFd::from_raw_fd(fd) });
                return v;
            }
            json!({"ok": true})
        }
        // ------------------------------------------------------------------ raw action by the caller
        (_, "raw") => {
            // something the *caller* (or anybody) does between two library calls, with plain libc
            let a = cs(s(c, "a"));
            let b = cs(s(c, "b"));
            let rc = unsafe {
                match s(c, "act") {
                    "rename" => libc::rename(a.as_ptr(), b.as_ptr()),
                    "unlink" => libc::unlink(a.as_ptr()),
                    "rmdir" => libc::rmdir(a.as_ptr()),
                    "mkfile" => {
                        let fd = libc::open(a.as_ptr(), libc::O_CREAT | libc::O_WRONLY | libc::O_CLOEXEC, 0o644);
                        if fd >= 0 {
                            libc::write(fd, b"replacement\n".as_ptr() as *const _, 12);
                            libc::close(fd);
                            0
                        } else {
                            -1
                        }
                    }
                    "mkdir" => libc::mkdir(a.as_ptr(), 0o755),
                    "mkfifo" => libc::mkfifo(a.as_ptr(), 0o644),
                    "symlink" => libc::symlink(b.as_ptr(), a.as_ptr()),
                    _ => -1,
                }
            };
            json!({"ok": rc == 0, "errno": if rc == 0 { 0 } else { crate::tree::errno() }, "raw": true})
        }
        // ------------------------------------------------------------------ handles
        (_, "reopen") => {
            // reopen the fd returned by call `of` (optionally moved to descriptor number `dupto`)
            let of = c.get("of").and_then(|v| v.as_u64()).unwrap_or(0) as usize;
            let src = match ctx.kept.get(of).and_then(|o| o.as_ref()) {
                Some(fd) => fd.as_raw_fd(),
                None => return json!({"ok": false, "skip": "no handle"}),
            };
            let mut tmp: Option<i32> = None;
            let mut saved: i32 = -1;
            let hfd = if let Some(n) = c.get("dupto").and_then(|v| v.as_i64()) {
                let n = n as i32;
                // whatever currently lives at descriptor n is moved out of the way and put back afterwards
                if unsafe { libc::fcntl(n, libc::F_GETFD) } >= 0 {
                    saved = unsafe { libc::fcntl(n, libc::F_DUPFD_CLOEXEC, 250) };
                }
                let r = unsafe { libc::dup3(src, n, libc::O_CLOEXEC) };
                if r < 0 {
                    return json!({"ok": false, "skip": format!("dup3 failed {}", crate::tree::errno())});
                }
                tmp = Some(n);
                n
            } else {
                src
            };
            let fl = c["oflags"].as_i64().unwrap_or(0) as i32;
            let v = if api == "c" {
                let r = bracket!(unsafe { pathrs_reopen(hfd, fl) });
                let v = capi_result_fd(r);
                if r >= 0 {
                    *keep = Some(unsafe { OwnedFd::from_raw_fd(r) });
                }
                v
            } else {
                let b = unsafe { BorrowedFd::borrow_raw(hfd) };
                let href = pathrs::HandleRef::from_fd(b);
                let r = bracket!(href.reopen(OpenFlags::from_bits_retain(fl)));
                from_fd_result(r, keep)
            };
            let still = unsafe { libc::fcntl(hfd, libc::F_GETFD) } >= 0;
            if let Some(n) = tmp {
                unsafe {
                    if saved >= 0 {
                        libc::dup2(saved, n);
                        libc::close(saved);
                    } else {
                        libc::close(n);
                    }
                }
            }
            let mut v = v;
            v["handle_still_open"] = json!(still);
            v
        }
        (_, "reopen_threads") => {
            // K threads of one process (one descriptor table) reopen the same handle at the same moment, in a process that
            // has not used the library's global procfs handle yet: concurrent first use
            // (the handle is opened by the harness itself: a library lookup could already be the first use)
            let pc = cs(path);
            let src = unsafe { libc::openat(rootraw, pc.as_ptr(), libc::O_PATH | libc::O_NOFOLLOW | libc::O_CLOEXEC) };
            if src < 0 {
                return json!({"ok": false, "skip": "no handle"});
            }
            let handle = describe_fd(src);
            let k = c.get("threads").and_then(|v| v.as_u64()).unwrap_or(4) as usize;
            let fl = c["oflags"].as_i64().unwrap_or(0) as i32;
            let use_c = api == "c";
            let barrier = std::sync::Arc::new(std::sync::Barrier::new(k));
            let mut ths = Vec::new();
            for _ in 0..k {
                let b = barrier.clone();
                ths.push(std::thread::spawn(move || -> Value {
                    b.wait();
                    if use_c {
                        let r = unsafe { pathrs_reopen(src, fl) };
                        let v = if r >= 0 { describe_fd(r) } else { capi_error(r) };
                        if r >= 0 {
                            unsafe { libc::close(r) };
                        }
                        v
                    } else {
                        let bfd = unsafe { BorrowedFd::borrow_raw(src) };
                        match pathrs::HandleRef::from_fd(bfd).reopen(OpenFlags::from_bits_retain(fl)) {
                            Ok(f) => describe_fd(f.as_raw_fd()),
                            Err(e) => kind_json(&e),
                        }
                    }
                }));
            }
            let outs: Vec<Value> = ths.into_iter().map(|t| t.join().unwrap_or(json!({"ok": false, "panic": "thread panicked"}))).collect();
            let panicked = outs.iter().any(|o| o.get("panic").is_some());
            unsafe { libc::close(src) };
            let mut v = json!({"ok": outs.iter().all(|o| o.get("ok").and_then(|x| x.as_bool()).unwrap_or(false)), "threads": outs, "handle": handle});
            if panicked {
                v["panic"] = json!("thread panicked");
            }
            v
        }
        (_, "proc_in_thread") => {
            // a procfs operation made by a thread that is not the thread-group leader: "self" is the process, "thread-self"
            // the calling thread.  The handle (Rust API) is created by the leader and used by the thread.
            let base_s = s(c, "base").to_string();
            let cbase = c.get("cbase").and_then(|v| v.as_u64()).unwrap_or(0);
            let what = s(c, "what").to_string();
            let fl = c["oflags"].as_i64().unwrap_or(0) as i32;
            let use_c = api == "c";
            let target = path.to_path_buf();
            let handle = if use_c { None } else {
                match ProcfsHandle::new() {
                    Ok(h) => Some(h),
                    Err(e) => return kind_json(&e),
                }
            };
            let th = std::thread::spawn(move || -> Value {
                let tid = unsafe { libc::syscall(libc::SYS_gettid) } as i64;
                let mut out = if use_c {
                    let p = cs(&target);
                    if what == "readlink" {
                        let mut buf = vec![0u8; 4096];
                        let r = unsafe { pathrs_proc_readlink(cbase, p.as_ptr(), buf.as_mut_ptr() as *mut c_char, buf.len()) };
                        if r >= 0 { json!({"ok": true, "body": String::from_utf8_lossy(&buf[..std::cmp::min(r as usize, buf.len())])}) } else { capi_error(r) }
                    } else {
                        let r = unsafe { pathrs_proc_open(cbase, p.as_ptr(), fl) };
                        if r >= 0 {
                            let v = describe_fd(r);
                            unsafe { libc::close(r) };
                            v
                        } else {
                            capi_error(r)
                        }
                    }
                } else {
                    let h = handle.as_ref().unwrap();
                    let base = base_of(&base_s);
                    match what.as_str() {
                        "readlink" => match h.readlink(base, &target) {
                            Ok(p) => json!({"ok": true, "body": p.to_string_lossy()}),
                            Err(e) => kind_json(&e),
                        },
                        "open_follow" => match h.open_follow(base, &target, OpenFlags::from_bits_retain(fl)) {
                            Ok(f) => describe_fd(f.as_raw_fd()),
                            Err(e) => kind_json(&e),
                        },
                        _ => match h.open(base, &target, OpenFlags::from_bits_retain(fl)) {
                            Ok(f) => describe_fd(f.as_raw_fd()),
                            Err(e) => kind_json(&e),
                        },
                    }
                };
                out["tid"] = json!(tid);
                out
            });
            let mut out = th.join().unwrap_or(json!({"ok": false, "panic": "thread panicked"}));
            out["pid"] = json!(unsafe { libc::getpid() });
            out
        }
        (_, "reopen_in_thread") => {
            // the calling thread has its own descriptor table (unshare(CLONE_FILES)); the thread-group
            // leader holds *other* files at the descriptor numbers the thread is about to get
            let rootpath = s(c, "rootpath_abs").to_string();
            let target = path.to_path_buf();
            let decoy = cs(s(c, "decoy"));
            let fl = c["oflags"].as_i64().unwrap_or(0) as i32;
            let (tx, rx) = std::sync::mpsc::channel::<()>();
            let (tx2, rx2) = std::sync::mpsc::channel::<()>();
            let th = std::thread::spawn(move || -> Value {
                if unsafe { libc::unshare(libc::CLONE_FILES) } != 0 {
                    return json!({"ok": false, "skip": "unshare(CLONE_FILES) failed"});
                }
                let _ = tx.send(());
                let _ = rx2.recv();
                let root = match Root::open(&rootpath) {
                    Ok(r) => r,
                    Err(e) => return kind_json(&e),
                };
                let h = match root.resolve(&target) {
                    Ok(h) => h,
                    Err(e) => return kind_json(&e),
                };
                let hv = describe_fd(h.as_fd().as_raw_fd());
                let r = h.reopen(OpenFlags::from_bits_retain(fl));
                let mut out = match r {
                    Ok(f) => describe_fd(f.as_raw_fd()),
                    Err(e) => kind_json(&e),
                };
                out["handle"] = hv;
                out
            });
            let _ = rx.recv();
            // occupy the numbers in the leader's table with decoys
            let mut decoys = Vec::new();
            for _ in 0..48 {
                let fd = unsafe { libc::open(decoy.as_ptr(), libc::O_RDONLY | libc::O_CLOEXEC) };
                if fd >= 0 {
                    decoys.push(fd);
                }
            }
            let _ = tx2.send(());
            let out = th.join().unwrap_or(json!({"ok": false, "panic": "thread panicked"}));
            for fd in decoys {
                unsafe { libc::close(fd) };
            }
            out
        }
        (_, "reopen_tty") => {
            // a session leader without controlling terminal reopens a handle to a pty slave: the reopen must not make it
            // the controlling terminal (O_NOCTTY is part of the reopen contract).  Done in a forked child.
            let use_c = s(c, "api") == "c";
            let fl = c["oflags"].as_i64().unwrap_or(libc::O_RDWR as i64) as i32;
            let pid = unsafe { libc::fork() };
            if pid == 0 {
                let code = (|| -> i32 {
                    unsafe {
                        if libc::setsid() < 0 {
                            return 3;
                        }
                        let m = libc::posix_openpt(libc::O_RDWR | libc::O_NOCTTY);
                        if m < 0 || libc::grantpt(m) != 0 || libc::unlockpt(m) != 0 {
                            return 3;
                        }
                        let mut buf = [0 as c_char; 64];
                        if libc::ptsname_r(m, buf.as_mut_ptr(), buf.len()) != 0 {
                            return 3;
                        }
                        let name = std::ffi::CStr::from_ptr(buf.as_ptr()).to_string_lossy().to_string();
                        let leaf = name.rsplit('/').next().unwrap_or("0").to_string();
                        let root = match Root::open("/dev/pts") {
                            Ok(r) => r,
                            Err(_) => return 3,
                        };
                        let h = match root.resolve(&leaf) {
                            Ok(h) => h,
                            Err(_) => return 3,
                        };
                        let ok = if use_c {
                            let r = pathrs_reopen(h.as_fd().as_raw_fd(), fl);
                            r >= 0
                        } else {
                            h.reopen(OpenFlags::from_bits_retain(fl)).map(|f| { std::mem::forget(f); }).is_ok()
                        };
                        if !ok {
                            return 4;
                        }
                        // does the process have a controlling terminal now?
                        let t = libc::open(b"/dev/tty\0".as_ptr() as *const c_char, libc::O_RDWR | libc::O_NOCTTY);
                        if t >= 0 { 1 } else { 0 }
                    }
                })();
                unsafe { libc::_exit(code) };
            }
            let mut st = 0;
            unsafe { libc::waitpid(pid, &mut st, 0) };
            let code = if libc::WIFEXITED(st) { libc::WEXITSTATUS(st) } else { 99 };
            match code {
                0 => json!({"ok": true, "ctty": false}),
                1 => json!({"ok": true, "ctty": true}),
                3 => json!({"ok": false, "skip": "no pty available"}),
                4 => json!({"ok": false, "kind": "OsError", "errno": 0, "msg": "reopen of the pty failed"}),
                x => json!({"ok": false, "panic": format!("child ended with {x}")}),
            }
        }
        ("rust", "try_clone_root") => {
            let r = bracket!(ctx.root.as_ref().unwrap().try_clone());
            from_fd_result(r, keep)
        }
        ("rust", "try_clone") => {
            let of = c.get("of").and_then(|v| v.as_u64()).unwrap_or(0) as usize;
            let src = match ctx.kept.get(of).and_then(|o| o.as_ref()) {
                Some(fd) => fd.as_fd(),
                None => return json!({"ok": false, "skip": "no handle"}),
            };
            let r = bracket!(pathrs::HandleRef::from_fd(src).try_clone());
            from_fd_result(r, keep)
        }
        ("c", "open_root") => {
            let p = cs(path);
            let r = bracket!(unsafe { pathrs_open_root(p.as_ptr()) });
            let v = capi_result_fd(r);
            if r >= 0 {
                *keep = Some(unsafe { OwnedFd::from_raw_fd(r) });
            }
            v
        }
        ("rust", "open_root") => {
            let r = bracket!(Root::open(path));
            from_fd_result(r, keep)
        }
        // ------------------------------------------------------------------ procfs
        ("rust", "proc_new") => {
            // the handle owns exactly one descriptor, which the API does not expose: the worker
            // reports the single new entry of /proc/self/fd as the "returned descriptor"
            let r = bracket!(match s(c, "kind") {
                "unmasked" => ProcfsHandle::new(), // (new_unmasked is crate-private)
                _ => ProcfsHandle::new(),
            });
            match r {
                Ok(h) => {
                    ctx.procfs = Some(h);
                    json!({"ok": true, "handle": "procfs", "ret_is_new_fd": true})
                }
                Err(e) => kind_json(&e),
            }
        }
        ("rust", "proc_from_fd") => {
            // try_from_fd on a descriptor the harness obtained itself (how: open | open_tree | fsopen | path)
            let fd: i32 = unsafe {
                match s(c, "how") {
                    "open" => libc::open(b"/proc\0".as_ptr() as *const c_char, libc::O_PATH | libc::O_DIRECTORY | libc::O_CLOEXEC),
                    "open_rd" => libc::open(b"/proc\0".as_ptr() as *const c_char, libc::O_RDONLY | libc::O_DIRECTORY | libc::O_CLOEXEC),
                    "open_tree" => libc::syscall(libc::SYS_open_tree, libc::AT_FDCWD, b"/proc\0".as_ptr(), 1u32 | libc::O_CLOEXEC as u32) as i32,
                    "open_tree_rec" => libc::syscall(libc::SYS_open_tree, libc::AT_FDCWD, b"/proc\0".as_ptr(), 1u32 | 0x8000u32 | libc::O_CLOEXEC as u32) as i32,
                    "fsopen" | "fsopen_subset" => {
                        let sfd = libc::syscall(libc::SYS_fsopen, b"proc\0".as_ptr(), 1u32) as i32;
                        if sfd < 0 {
                            -1
                        } else {
                            if s(c, "how") == "fsopen_subset" {
                                libc::syscall(libc::SYS_fsconfig, sfd, 1u32, b"subset\0".as_ptr(), b"pid\0".as_ptr(), 0);
                            }
                            libc::syscall(libc::SYS_fsconfig, sfd, 6u32, 0usize, 0usize, 0);
                            let m = libc::syscall(libc::SYS_fsmount, sfd, 1u32, 0u32) as i32;
                            libc::close(sfd);
                            m
                        }
                    }
                    _ => {
                        let p = cs(path);
                        libc::open(p.as_ptr(), libc::O_PATH | libc::O_CLOEXEC)
                    }
                }
            };
            if fd < 0 {
                return json!({"ok": false, "skip": format!("cannot obtain fd: errno {}", crate::tree::errno())});
            }
            let hdesc = describe_fd(fd);
            let owned = unsafe { OwnedFd::from_raw_fd(fd) };
            let r = bracket!(ProcfsHandle::try_from_fd(owned));
            match r {
                Ok(h) => {
                    ctx.procfs = Some(h);
                    json!({"ok": true, "handle": "procfs", "fd": fd, "consumed_fd": fd, "hroot": hdesc})
                }
                Err(e) => {
                    let mut v = kind_json(&e);
                    v["consumed_fd"] = json!(fd);
                    v
                }
            }
        }
        ("rust", "proc_open") | ("rust", "proc_open_follow") => {
            let base = base_of(s(c, "base"));
            let fl = oflags(&c["oflags"]);
            let r = match ctx.procfs.as_ref() {
                Some(h) => bracket!(if op == "proc_open" { h.open(base, path, fl) } else { h.open_follow(base, path, fl) }),
                None => return json!({"ok": false, "skip": "no procfs handle"}),
            };
            from_fd_result(r, keep)
        }
        ("rust", "proc_readlink") => {
            let base = base_of(s(c, "base"));
            let r = match ctx.procfs.as_ref() {
                Some(h) => bracket!(h.readlink(base, path)),
                None => return json!({"ok": false, "skip": "no procfs handle"}),
            };
            match r {
                Ok(p) => json!({"ok": true, "body": p.to_string_lossy()}),
                Err(e) => kind_json(&e),
            }
        }
        ("c", "proc_open") => {
            let p = cs(path);
            let base = c.get("cbase").and_then(|v| v.as_u64()).unwrap_or(0xFFFF_FFFE_5E1F_5E1Fu64);
            let r = bracket!(unsafe { pathrs_proc_open(base, p.as_ptr(), c["oflags"].as_i64().unwrap_or(0) as c_int) });
            let v = capi_result_fd(r);
            if r >= 0 {
                *keep = Some(unsafe { OwnedFd::from_raw_fd(r) });
            }
            v
        }
        ("c", "proc_readlink") => {
            let p = cs(path);
            let base = c.get("cbase").and_then(|v| v.as_u64()).unwrap_or(0xFFFF_FFFE_5E1F_5E1Fu64);
            let bufsz = c.get("bufsz").and_then(|v| v.as_i64()).unwrap_or(4096);
            let pad = 64usize;
            let total = if bufsz < 0 { 0 } else { bufsz as usize };
            let mut mem = vec![0xA5u8; total + 2 * pad];
            let ptr = if bufsz < 0 { std::ptr::null_mut() } else { unsafe { mem.as_mut_ptr().add(pad) as *mut c_char } };
            let r = bracket!(unsafe { pathrs_proc_readlink(base, p.as_ptr(), ptr, total) });
            if r >= 0 {
                let n = std::cmp::min(r as usize, total);
                let copied = String::from_utf8_lossy(&mem[pad..pad + n]).to_string();
                let tail_ok = mem[pad + n..pad + total].iter().all(|b| *b == 0xA5);
                let canary_ok = mem[..pad].iter().all(|b| *b == 0xA5) && mem[pad + total..].iter().all(|b| *b == 0xA5);
                json!({"ok": true, "len": r, "body": copied, "tail_ok": tail_ok, "canary_ok": canary_ok})
            } else {
                let canary_ok = mem.iter().all(|b| *b == 0xA5);
                let mut v = capi_error(r);
                v["canary_ok"] = json!(canary_ok);
                v
            }
        }
        (_, "proc_live_enum") => {
            // classify the live entries of /proc, /proc/<pid>, /proc/<pid>/task/<tid> (+ fd/, ns/)
            let pid = unsafe { libc::getpid() };
            let mut out: Vec<Value> = Vec::new();
            let bases: Vec<(&str, String)> = vec![("root", "/proc".to_string()), ("self", format!("/proc/{}", pid)), ("thread-self", format!("/proc/{}/task/{}", pid, pid))];
            for (bname, bpath) in bases.iter() {
                let mut names: Vec<String> = match std::fs::read_dir(bpath) {
                    Ok(rd) => rd.filter_map(|e| e.ok()).map(|e| e.file_name().to_string_lossy().to_string()).collect(),
                    Err(_) => Vec::new(),
                };
                names.sort();
                if *bname == "root" {
                    names.retain(|n| !n.chars().all(|c| c.is_ascii_digit()) || n == "1");
                    // magic-links of another process (which the caller may not be allowed to read)
                    for sub in ["1/exe", "1/cwd", "1/root", "1/ns/mnt", "1/status"] {
                        names.push(sub.to_string());
                    }
                } else {
                    for sub in ["fd/0", "fd/1", "fd/2", "ns/mnt", "ns/pid", "attr/current", "task"] {
                        names.push(sub.to_string());
                    }
                }
                for n in names {
                    let full = format!("{}/{}", bpath, n);
                    if let Some(st) = crate::tree::lstat(std::path::Path::new(&full)) {
                        let mut kind = match st.st_mode & libc::S_IFMT {
                            libc::S_IFDIR => "dir",
                            libc::S_IFLNK => "sym",
                            _ => "file",
                        };
                        if kind == "sym" {
                            let body = std::fs::read_link(&full).map(|p| p.to_string_lossy().to_string()).unwrap_or_default();
                            if body.starts_with('/') || body.contains(":[") || body.is_empty() {
                                kind = "magic";
                            } else {
                                // ordinary procfs symlink: classify by what it points to
                                let c = cs(&full);
                                let mut t: libc::stat = unsafe { std::mem::zeroed() };
                                kind = if unsafe { libc::stat(c.as_ptr(), &mut t) } == 0 && (t.st_mode & libc::S_IFMT) == libc::S_IFDIR { "symdir" } else { "symfile" };
                            }
                        }
                        out.push(json!({"base": bname, "name": n, "kind": kind}));
                    }
                }
            }
            json!({"ok": true, "entries": out})
        }
        (_, "capi_arg") => crate::capi_cases::arg_case(ctx.root_raw, c),
        (_, "capi_copy") => crate::capi_cases::copy_case(ctx.root_raw, c),
        (_, "errtab_concurrent") => crate::errtab::concurrent(c),
        (_, "errtab_birthday") => crate::errtab::birthday(c),
        (_, "errtab_race_same") => crate::errtab::race_same(c),
        _ => json!({"ok": false, "skip": format!("unknown op {api}/{op}")}),
    }
}

#[allow(dead_code)]
pub fn handle_into_raw(h: Handle) -> i32 {
    OwnedFd::from(h).into_raw_fd()
}
