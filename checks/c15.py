"""C15: the emulated resolver enforces fs.protected_symlinks exactly like the kernel.
TLC (Psl.tla) enumerates directory mode bits x directory owner x link owner x caller x link
position x sysctl value with the kernel's verdict; every case is built with real chown/chmod and
resolved as that (effective) user through the emulated backend, the kernel backend and a raw
openat2 -- with the sysctl really set to the case's value (exclusive lock, restored)."""
import json, time, random, collections, fcntl
from lib.common import *

ASSUME = ["fs.protected_symlinks is machine-global: this check sets it under an exclusive flock and restores it; all other checks use link owner = caller, for which the rule never refuses",
          "the caller's identity is switched with setresuid(-1, uid, -1) around the call (filesystem uid follows the effective uid); worker processes are fresh per sysctl value because the library caches it",
          "the kernel verdict is measured on this kernel with a raw openat2(RESOLVE_IN_ROOT) as the same user, and cross-checked against the model"]
SYSCTL = "/proc/sys/fs/protected_symlinks"


def build_case(g, idx):
    mode = 0o755 | (0o1000 if g["sticky"] else 0) | (0o002 if g["ww"] else 0)
    tree = [dict(id=5, p=2, n="s", k="dir", mode=mode, uid=g["dirUid"]), dict(id=6, p=2, n="t", k="dir", mode=0o755), dict(id=7, p=6, n="f", k="file", mode=0o644)]
    if g["pos"] == "abs-into-root":
        # the root directory itself carries the mode bits and the owner; t/abs -> /lnk, lnk (in the root) -> t/f
        tree = [dict(id=90, p=2, n="", k="rootattr", mode=mode, uid=g["dirUid"]), dict(id=6, p=2, n="t", k="dir", mode=0o755), dict(id=7, p=6, n="f", k="file", mode=0o644),
                dict(id=8, p=2, n="lnk", k="lnk", b="t/f", uid=g["linkUid"]), dict(id=9, p=6, n="abs", k="lnk", b="/lnk", uid=g["caller"])]
        return tree, "t/abs"
    if g["pos"] == "trailing":
        tree.append(dict(id=8, p=5, n="lnk", k="lnk", b="../t/f", uid=g["linkUid"]))
        path = "s/lnk"
    elif g["pos"] == "intermediate":
        tree.append(dict(id=8, p=5, n="lnk", k="lnk", b="../t", uid=g["linkUid"]))
        path = "s/lnk/f"
    else:
        tree.append(dict(id=8, p=5, n="lnk", k="lnk", b="../t/f", uid=g["linkUid"]))
        tree.append(dict(id=9, p=6, n="outer", k="lnk", b="../s/lnk", uid=g["caller"]))
        path = "t/outer"
    return tree, path


RACE_SECRET, RACE_SECRET2 = 10, 13


def race_family(v, stats, tier_):
    from checks import race
    # s: sticky world-writable directory of uid 0; caller uid 0.  s/lnk, s/lnkd: safe (owned by the caller);
    # s/evil, s/evild: owned by uid 12345
    nodes = [dict(id=5, p=2, n="s", k="dir", mode=0o1777, uid=0), dict(id=6, p=2, n="t", k="dir", mode=0o755), dict(id=7, p=6, n="f", k="file", mode=0o644),
             dict(id=RACE_SECRET, p=6, n="secret", k="file", mode=0o644), dict(id=11, p=2, n="u", k="dir", mode=0o755), dict(id=12, p=6, n="g", k="file", mode=0o644),
             dict(id=RACE_SECRET2, p=11, n="g", k="file", mode=0o644),
             dict(id=8, p=5, n="lnk", k="lnk", b="../t/f", uid=0), dict(id=9, p=5, n="evil", k="lnk", b="../t/secret", uid=12345),
             dict(id=14, p=6, n="outer", k="lnk", b="../s/lnk", uid=0)]
    feat = {"openat2": False, "psl": 1}
    fam = [("trailing", dict(op="resolve", path="s/lnk"), dict(act="exchange", sp=5, sn="lnk", dp=5, dn="evil"), RACE_SECRET),
           ("trailing-open", dict(op="open", path="s/lnk", oflags=O["RDONLY"] | O["NONBLOCK"]), dict(act="exchange", sp=5, sn="lnk", dp=5, dn="evil"), RACE_SECRET),
           ("nested-trailing", dict(op="resolve", path="t/outer"), dict(act="exchange", sp=5, sn="lnk", dp=5, dn="evil"), RACE_SECRET)]
    # (links used as intermediate components are never refused, by the kernel's rule and by Psl.tla: s/lnkd/g is no subject here)
    counts, _, _ = race.baseline_counts(nodes, [f[1] for f in fam], feat)
    cases = []
    for (name, call, act, secret), n in zip(fam, counts):
        if n == 0:
            raise ToolError("C15 race family: no relevant syscalls in the baseline of %s" % name)
        for k1 in range(n + 1):
            cases.append(dict(id="psl-race|%s|%d" % (name, k1), tree=nodes, feat=feat, trace=True, raw=False, calls=[call], sched=[dict(call=0, k=k1, acts=[act])],
                              meta=dict(name=name, ks=[k1], secret=secret)))
            for k2 in range(k1 + 1, n + 2):
                if tier_ == "quick" and k2 > k1 + 3:
                    break
                cases.append(dict(id="psl-race|%s|%d-%d" % (name, k1, k2), tree=nodes, feat=feat, trace=True, raw=False, calls=[call],
                                  sched=[dict(call=0, k=k1, acts=[act]), dict(call=0, k=k2, acts=[act])], meta=dict(name=name, ks=[k1, k2], secret=secret)))
    res = run_pv(cases, jobs=8, tag="C15r")
    outcomes = collections.Counter()
    for c, r in zip(cases, res):
        rs = (r.get("out") or [{}])[0].get("results") or []
        if r.get("status") != "ok" or not rs:
            raise ToolError("C15 race case failed: %s %s" % (c["id"], json.dumps(r)[:300]))
        o = lib_outcome(rs[0])
        stats["race_cases"] += 1
        outcomes[str(o)] += 1
        if o[0] == "ok" and o[1] == c["meta"]["secret"]:
            v.violation(dict(check="protected-symlinks-race", pos=c["meta"]["name"]),
                        "C15: emulated backend, sysctl=1, sticky world-writable directory: while %s ran, the safe link was exchanged with a link owned by uid 12345 at syscall boundary %s; "
                        "the lookup went THROUGH THE UNSAFE LINK (result: its target) -- the rule must be decided on the link that is followed" % (c["calls"][0], c["meta"]["ks"]), c)
    stats["race_outcomes"] = dict(outcomes)


def main(tier_):
    t0 = time.time()
    v = Verdict("C15")
    build_s = build_harness()
    design = run_tlc("Psl.tla", "MC_C15.cfg", workers=4, timeout=300)
    gen = run_tlc("Psl.tla", "MC_C15_gen.cfg", workers=4, timeout=300)
    gcases = [b for t, b in gen["prints"] if t == "CASE"]
    if not gen["complete"] or not gcases:
        raise ToolError("TLC did not enumerate Psl: %s" % gen["out"][-1000:])
    lock = open("/dev/shm/pathrs-verif-sysctl.lock", "w")
    fcntl.flock(lock, fcntl.LOCK_EX)
    orig = open(SYSCTL).read().strip()
    stats = collections.Counter()
    samples = []
    try:
        for val in (0, 1):
            with open(SYSCTL, "w") as f:
                f.write(str(val))
            cases = []
            for gi, g in enumerate([x for x in gcases if x["sysctl"] == val]):
                tree, path = build_case(g, gi)
                for bname, feat in (("kernel", {"openat2": True, "psl": val}), ("emulated", {"openat2": False, "psl": val})):
                    calls = [dict(op="resolve", path=path, euid=g["caller"])]
                    if bname == "kernel":
                        calls.append(dict(op="kopen", path=path, oflags=O["PATH"], euid=g["caller"]))
                    cases.append(dict(id="psl|%d|%d|%s" % (val, gi, bname), tree=tree, feat=feat, trace=False, calls=calls, meta=dict(g=g, backend=bname, path=path)))
            cases.sort(key=lambda c: json.dumps(c["feat"], sort_keys=True))
            res = run_pv(cases, jobs=6, tag="C15")
            kern = {}
            for c, r in zip(cases, res):
                if r.get("status") != "ok" or not r.get("out") or "results" not in r["out"][0]:
                    raise ToolError("C15 case failed: %s %s" % (c["id"], json.dumps(r)[:300]))
                rs = r["out"][0]["results"]
                key = json.dumps(c["meta"]["g"], sort_keys=True)
                if c["meta"]["backend"] == "kernel":
                    kern[key] = lib_outcome(rs[1])
            for c, r in zip(cases, res):
                g = c["meta"]["g"]
                key = json.dumps(g, sort_keys=True)
                got = lib_outcome(r["out"][0]["results"][0])
                truth = kern.get(key)
                stats["cases"] += 1
                model = ("err", "EACCES") if g["refuse"] else ("ok", 7)
                if truth is not None and truth != model:
                    stats["oracle_vs_kernel_mismatch"] += 1
                    v.notes.append("model vs kernel: %s model=%s kernel=%s" % (g, model, truth))
                want = truth if truth is not None else model
                if got != want:
                    sig = dict(check="protected-symlinks", backend=c["meta"]["backend"], pos=g["pos"], sysctl=g["sysctl"], got=list(got), want=list(want),
                               sticky=g["sticky"], ww=g["ww"], owner_rel="%s/%s/%s" % (g["dirUid"], g["linkUid"], g["caller"]))
                    v.violation(sig, "C15: %s backend, sysctl=%d, directory %s%s owned by %d, link owned by %d, caller %d, %s link: library %s, kernel %s" % (
                        c["meta"]["backend"], g["sysctl"], "sticky " if g["sticky"] else "", "world-writable" if g["ww"] else "not world-writable", g["dirUid"], g["linkUid"], g["caller"], g["pos"], got, want), c)
                elif len(samples) < 4 and g["refuse"]:
                    samples.append(dict(case=g, backend=c["meta"]["backend"], library=list(got), kernel=list(want)))
            if val == 1:
                # the sysctl is read (and cached) at the first symlink lookup of a process: a failing system call during
                # that first use must not turn the rule off -- neither for this lookup nor for the next one
                gs = [x for x in gcases if x["sysctl"] == 1 and x["refuse"] and x["pos"] == "trailing"]
                if gs:
                    g = gs[0]
                    tree, path = build_case(g, 0)
                    feat = {"openat2": False, "psl": 1}
                    two = [dict(op="resolve", path=path, euid=g["caller"]), dict(op="resolve", path=path, euid=g["caller"])]
                    base = run_pv([dict(id="psl-fault-base", tree=tree, feat=feat, trace=True, raw=True, cold=True, calls=two)], jobs=1, tag="C15b")[0]
                    sites = sorted({e["inj_i"] for e in base.get("events", []) if e.get("ev") == "sys" and "inj_i" in e and e.get("call") == 0})
                    fcases = [dict(id="psl-fault|%d|%d" % (i, en), tree=tree, feat=feat, trace=True, raw=False, cold=True, calls=two, faults=[dict(call=0, i=i, errno=en)], meta=dict(g=g, i=i, errno=en))
                              for i in sites for en in (24, 5)]
                    fres = run_pv(fcases, jobs=8, tag="C15f")
                    for c, r in zip(fcases, fres):
                        rs = (r.get("out") or [{}])[0].get("results") or []
                        stats["fault_cases"] += 1
                        for j, x in enumerate(rs[:2]):
                            o = lib_outcome(x)
                            if o[0] == "ok":
                                v.violation(dict(check="protected-symlinks-fault", call=j, errno=c["meta"]["errno"]),
                                            "C15: emulated backend, sysctl=1, sticky world-writable directory owned by %d, link owned by %d, caller %d: after errno %d was injected into syscall #%d of the "
                                            "process's first lookup, lookup #%d FOLLOWED the link (%s); the kernel refuses it with EACCES" % (g["dirUid"], g["linkUid"], g["caller"], c["meta"]["errno"], c["meta"]["i"], j + 1, o), c)
                # the rule is decided on the link that IS FOLLOWED (the kernel decides on the inode it follows): while the
                # lookup runs, an attacker exchanges the safe link with an unsafe one (owned by neither the caller nor the
                # directory's owner) and back -- in no schedule may the walk go through the unsafe link
                race_family(v, stats, tier_)
    finally:
        with open(SYSCTL, "w") as f:
            f.write(orig)
        fcntl.flock(lock, fcntl.LOCK_UN)
    rc = v.finish()
    cov = dict(states=gen["distinct"], transitions=gen["states"], traces_validated_against_impl=stats["cases"], samples=samples or [dict(note="no refusing case sampled")], evaluations=stats["cases"],
               distinct_nontrivial=len([g for g in gcases if g["sysctl"] == 1 and g["sticky"] and g["ww"]]),
               rule="TLC enumerates 2x2x3x3x3x3x2 = 648 combinations; all executed on both backends; non-trivial = sysctl on and directory sticky+world-writable (the rule can fire)",
               exhaustive=True, first_use_fault_cases=stats["fault_cases"], race_cases=stats["race_cases"], race_outcomes=stats.get("race_outcomes"), design_invariant_violated=design["violated"], oracle_vs_kernel_mismatch=stats["oracle_vs_kernel_mismatch"], notes=v.notes[:5], build_s=round(build_s, 1))
    write_evidence("C15", tier_, "model_checking", cov, ASSUME, time.time() - t0, len(v.violations))
    return rc
