"""C10: a failing system call anywhere inside an operation yields a clean error.
For every (scenario call, feature set, cold/warm) the supervisor first records the real syscall
sequence, then re-runs it once per (real index i, errno) -- indices come from the real trace so
nothing is skipped -- plus repeated-EAGAIN and fd-exhaustion sequences; every run's outcome record
is judged by TLC (spec/TraceFault.tla); the traces also go through TraceFS (containment under
faults)."""
import json, time, random, collections, copy
from lib.common import *
from lib.project import *
from checks import scenarios

ASSUME = ["faults are injected into file-related system calls only (not memory management, futex, close, the harness' own pipes)",
          "an injected errno replaces the call (the kernel does not execute it)",
          "quick tier samples (seeded) the (index, errno) space per call; thorough enumerates all indices x catalogue",
          "tolerated failures are recognised by outcome equality with the unfaulted run, not by a site whitelist"]
CATALOGUE = [24, 23, 12, 13, 5, 4, 38, 11, 1, 28]   # EMFILE ENFILE ENOMEM EACCES EIO EINTR ENOSYS EAGAIN EPERM ENOSPC (ENOENT/ELOOP are answers, not faults: a lookup that is told "no such file" legitimately acts on it)


def tree_shape(snap, root_only=None):
    """path-indexed view of a snapshot: {path: (kind, body)} for comparison across runs"""
    kinds = {i["id"]: i for i in snap["inodes"]}
    ch = collections.defaultdict(list)
    for d in snap["dents"]:
        ch[d["p"]].append((d["n"], d["c"]))
    out = {}

    def walk(i, prefix, depth=0):
        if depth > 40:
            return
        for n, c in sorted(ch.get(i, [])):
            p = prefix + "/" + n
            k = kinds.get(c, {})
            out[p] = (k.get("k"), k.get("b"), k.get("mode") if k.get("k") == "dir" else None)
            if k.get("k") == "dir":
                walk(c, p, depth + 1)
    walk(1, "")
    return out


def outside(shape):
    return {p: v for p, v in shape.items() if not (p == "/root" or p.startswith("/root/"))}


def norm_result(r):
    if r is None:
        return ("none",)
    o = lib_outcome(r)
    if o[0] == "ok":
        return ("ok", r.get("ft"), (r.get("fl") or 0) & ~O["NOFOLLOW"], r.get("cloexec"))
    return o


WORK = {"mkdirat", "mknodat", "symlinkat", "linkat", "unlinkat", "renameat2", "renameat"}


def main(tier_):
    t0 = time.time()
    quick = tier_ == "quick"
    rnd = random.Random(seed())
    v = Verdict("C10")
    build_s = build_harness()
    scs = scenarios.scenarios()
    feats = scenarios.FEATS[:2]
    # ---- baselines (also yield the injectable index lists)
    base_cases = []
    for sc in scs:
        if sc["name"].startswith(("badfd", "open_root")):
            continue
        if quick and "callerflags" in sc["name"]:
            continue        # (the same operations as open-*/proc-* with other caller flags: a C05 subject; thorough tier only here)
        for fname, feat in feats:
            for cold in (False, True):
                if cold and not (sc["name"].startswith(("lookup-ok", "reopen", "proc", "mkdir_all")) and sc["name"].endswith("-rust")):
                    continue
                base_cases.append(dict(id="base|%s|%s|%s" % (sc["name"], fname, "cold" if cold else "warm"), tree=sc["tree"], feat=feat, trace=True, raw=True,
                                       cold=cold, calls=sc["calls"], meta=dict(scenario=sc["name"], feat=fname, cold=cold)))
    base_cases.sort(key=lambda c: (json.dumps(c["feat"], sort_keys=True), not c.get("cold")))
    base_res = run_pv(base_cases, jobs=12, tag="C10b")
    cases = []
    space = 0
    for bc, br in zip(base_cases, base_res):
        if br.get("status") != "ok" or not br.get("out") or "results" not in br["out"][0]:
            raise ToolError("baseline failed: %s %s" % (bc["id"], json.dumps(br)[:400]))
        per_call = collections.defaultdict(list)
        for e in br["events"]:
            if e.get("ev") == "sys" and "inj_i" in e:
                per_call[e["call"]].append((e["inj_i"], e["nr"], e.get("dfd_class") or e.get("fd_class") or ""))
        shape = tree_shape(br["final"])
        bres = [norm_result(r) for r in br["out"][0]["results"]]
        meta0 = dict(bc["meta"], base_results=bres, base_shape=None)
        ncalls = len(bc["calls"])
        for j in range(ncalls):
            sites = per_call.get(j, [])
            space += len(sites) * len(CATALOGUE)
            if quick:
                # first use (cold) is where initialisation lives: denser there
                if bc.get("cold") and j == 0:
                    # the first call of a fresh process initialises the global procfs handle (and, on the
                    # emulated backend, the sysctl cache): every site of that prefix, plus a sample of the rest
                    head = sites[:24]
                    chosen = head + rnd.sample(sites[24:], min(6, max(0, len(sites) - 24)))
                else:
                    chosen = rnd.sample(sites, min(3, len(sites)))
            else:
                chosen = sites
            procop = bc["calls"][j].get("op") in ("reopen", "proc_open", "proc_open_follow", "proc_readlink")
            if quick:
                # the call that does the operation's work (the one mutating *at syscall) always gets the whole catalogue
                chosen = list(dict.fromkeys(chosen + [x for x in sites if x[1] in WORK and x[2] == "tree"]))
                if procop:
                    # procfs lookups are short and made of probe / verify / open stages that cover for each other's errors:
                    # every procfs-relative syscall of the call gets one fault (errno rotating through the catalogue)
                    chosen = list(dict.fromkeys(chosen + [x for x in sites if x[2] == "proc"]))
            for ci_, (i, nr, cls) in enumerate(chosen):
                if quick and procop and cls == "proc":
                    errs = [CATALOGUE[(ci_ + j) % len(CATALOGUE)]]
                else:
                    if nr in WORK and cls == "tree":
                        errs = CATALOGUE
                    elif quick:
                        errs = rnd.sample(CATALOGUE, 2)
                    else:
                        # thorough: every site, five errnos of the catalogue rotating with the site (the whole catalogue at the work syscall)
                        errs = [CATALOGUE[(ci_ + q) % len(CATALOGUE)] for q in range(5)]
                errs = list(dict.fromkeys(errs))
                for en in errs:
                    c = copy.deepcopy(bc)
                    c["id"] = "flt|%s|%s|%s|c%d|i%d|%s|%d" % (bc["meta"]["scenario"], bc["meta"]["feat"], "cold" if bc.get("cold") else "warm", j, i, nr, en)
                    c["raw"] = False
                    c["faults"] = [dict(call=j, i=i, errno=en)]
                    c["meta"] = dict(bc["meta"], kind="single", call=j, site="%s@%d[%s]" % (nr, i, cls), errno=en, n=1, base=bc["id"])
                    cases.append(c)
            # sequences
            if any(nr == "openat2" and cls == "tree" for (_, nr, cls) in sites):
                # 5000 = "persistent": the property fixes no bound, so only a sequence no sane bound survives must end in a safety violation
                for n in ((2, 5000) if quick else (1, 2, 15, 16, 17, 40, 5000)):
                    c = copy.deepcopy(bc)
                    c["id"] = "eagain|%s|%s|%s|c%d|n%d" % (bc["meta"]["scenario"], bc["meta"]["feat"], "cold" if bc.get("cold") else "warm", j, n)
                    c["raw"] = False
                    c["calls"] = bc["calls"][:j + 1]
                    c["faults"] = [dict(call=j, nr="openat2", errno=11, count=n)]
                    c["meta"] = dict(bc["meta"], kind="eagain", call=j, site="openat2", errno=11, n=n, base=bc["id"])
                    cases.append(c)
            if any(nr == "openat2" and cls == "proc" for (_, nr, cls) in sites):
                # the procfs-relative openat2 calls (reopen, the d_path checks of the emulated backend, sysctl reads, procfs
                # operations) under a persistent EAGAIN storm: whatever the library does about it, the call ends ("does not
                # loop forever") -- with an error, or with the unfaulted result
                for n in ((1000000000,) if quick else (1, 3, 17, 5000, 1000000000)):      # 10^9 = for ever (the run has a time limit)
                    c = copy.deepcopy(bc)
                    c["id"] = "eagainproc|%s|%s|%s|c%d|n%d" % (bc["meta"]["scenario"], bc["meta"]["feat"], "cold" if bc.get("cold") else "warm", j, n)
                    c["raw"] = False
                    c["calls"] = bc["calls"][:j + 1]
                    c["faults"] = [dict(call=j, nr="openat2", errno=11, count=n, cls="proc")]
                    c["timeout"] = 12
                    c["meta"] = dict(bc["meta"], kind="eagainproc", call=j, site="openat2[proc]", errno=11, n=n, base=bc["id"])
                    cases.append(c)
            # descriptor exhaustion from the first syscall of every call of a fresh process (first-use initialisation of the
            # global procfs handle with every fallback failing) is always run; elsewhere the quick tier samples
            if sites and (not quick or bc.get("cold") or rnd.random() < 0.25):
                for frm in ([0] if quick else sorted({0, len(sites) // 3, 2 * len(sites) // 3})):
                    c = copy.deepcopy(bc)
                    c["id"] = "exhaust|%s|%s|%s|c%d|from%d" % (bc["meta"]["scenario"], bc["meta"]["feat"], "cold" if bc.get("cold") else "warm", j, frm)
                    c["raw"] = False
                    c["faults"] = [dict(call=j, **{"from": sites[frm][0]}, errno=24)]
                    c["meta"] = dict(bc["meta"], kind="exhaust", call=j, site="fd-creating>=%d" % sites[frm][0], errno=24, n=0, base=bc["id"])
                    cases.append(c)
    base_by_id = {bc["id"]: (bc, br) for bc, br in zip(base_cases, base_res)}
    cases.sort(key=lambda c: (json.dumps(c["feat"], sort_keys=True), not c.get("cold")))
    results = run_pv(cases, jobs=12, tag="C10")
    # ---- outcome records for TLC
    recs = []
    stats = collections.Counter()
    def make_rec(c, r):
        m = c["meta"]
        bc, br = base_by_id[m["base"]]
        j = m["call"]
        fired = any(e.get("ev") == "sys" and "injected" in e for e in r.get("events", []))
        if m["kind"] == "eagain" and any(e.get("ev") == "sys" and e.get("nr") == "openat2" and e.get("ret") == -11 and "injected" not in e for e in r.get("events", [])):
            # the kernel itself answered EAGAIN as well (a rename or mount somewhere on the machine): the number of
            # consecutive EAGAINs is not the injected one -- the run says nothing about the retry rule
            stats["eagain_runs_with_natural_eagain"] += 1
            return None
        outcome, errkind, res_j = "err", "", None
        status = r.get("status")
        rs = (r.get("out") or [{}])[0].get("results") or []
        if status == "hang" or (isinstance(status, dict) and "hang" in status):
            outcome = "hang"
        elif status != "ok" and not rs:
            outcome = "panic"   # the worker died (abort / signal)
            errkind = json.dumps(status)
        elif j < len(rs):
            res_j = rs[j]
            o = lib_outcome(res_j)
            if o[0] == "panic":
                outcome, errkind = "panic", str(o[1])
            elif o[0] in ("ok", "body"):
                outcome = "ok"
            else:
                outcome, errkind = "err", str(o[1])
                if "capi_id" in res_j and errkind == "EXDEV":
                    errkind = "SAFETY"      # the C ABI reports detected attacks as EXDEV (by contract)
        else:
            outcome, errkind = "panic", "no result (earlier call poisoned the worker)"
        bshape, shape = tree_shape(br["final"]), tree_shape(r["final"])
        same = False
        if outcome == "ok":
            # only the calls up to j were influenced: compare result j and the tree after the whole scenario
            brs = br["out"][0]["results"]
            same = norm_result(res_j) == norm_result(brs[j]) and (len(c["calls"]) != len(bc["calls"]) or shape == bshape)
        leaked = False
        if res_j is not None and outcome != "panic":
            opened = [x for x in res_j.get("fds_opened", []) if not (x.get("procroot") and x.get("cloexec"))]
            retfd = res_j.get("fd") if res_j.get("ok") else None
            leaked = any(x["fd"] != retfd for x in opened) or bool(res_j.get("fds_closed")) or bool(res_j.get("fds_changed"))
        base_ok = lib_outcome(br["out"][0]["results"][j])[0] in ("ok", "body")
        retried = bc["calls"][j].get("op") not in ("open",) or not bc["feat"].get("openat2", True)
        rec = dict(case=c["id"], op=bc["calls"][j].get("op", ""), kind=m["kind"], n=m["n"], site=m["site"], errno=m["errno"], fired=fired,
                   outcome=outcome, errkind=errkind, same_as_base=bool(same), outside_same=outside(shape) == outside(tree_shape(r["init"])),
                   leaked=bool(leaked), base_ok=bool(base_ok), retried=True, bound=int(m.get("bound", 0)))
        recs.append(rec)
        stats["fired" if fired else "not_fired"] += 1
        stats["outcome_" + outcome] += 1
        return rec
    for c, r in zip(cases, results):
        make_rec(c, r)
    # ---- the retry bound is not fixed by the property, so it is MEASURED: under a persistent EAGAIN storm the number of
    # leading openat2 attempts with one and the same path is the bound b of the operation's first lookup; sequences of
    # b-1, b, b+1 and 2b-1 EAGAINs are then replayed: fewer than b must be ridden out, b or more must surface as a
    # safety violation (an operation that swallows the aborted lookup and carries on with another one is caught here)
    stage2 = []
    for c, r in zip(list(cases), list(results)):
        m = c["meta"]
        if m["kind"] != "eagain" or m["n"] < 5000:
            continue
        att = [e.get("path") for e in r.get("events", []) if e.get("ev") == "sys" and e.get("nr") == "openat2" and e.get("dfd_class") == "tree" and e.get("call") == m["call"]]
        b = 0
        for pth in att:
            if pth != att[0]:
                break
            b += 1
        if b < 1 or b >= 5000:
            continue
        stats["measured_retry_bound_%d" % b] += 1
        for n in sorted({max(1, b - 1), b, b + 1, 2 * b - 1}):
            c2 = copy.deepcopy(c)
            c2["id"] = c["id"].rsplit("|n", 1)[0] + "|n%d|b%d" % (n, b)
            c2["faults"] = [dict(call=m["call"], nr="openat2", errno=11, count=n)]
            c2["meta"] = dict(m, n=n, bound=b)
            stage2.append(c2)
    if stage2:
        res2 = run_pv(stage2, jobs=12, tag="C10s2")
        for c, r in zip(stage2, res2):
            make_rec(c, r)
        cases += stage2
        results += res2
    tr = run_trace_tlc("TraceFault.tla", "TraceFS.cfg", recs)
    if not tr["accepted"] or tr["report"] is None:
        raise ToolError("TraceFault validation failed: %s" % tr["tlc"]["out"][-2000:])
    by_id = {c["id"]: c for c in cases}
    for b in tr["report"]["bad"]:
        c = by_id.get(b["case"], {})
        rec = next((x for x in recs if x["case"] == b["case"]), {})
        site_nr = b["site"].split("@")[0]
        sig = dict(check="fault", what=b["what"], op=b["op"], kind=b["kind"], site_nr=site_nr, scenario=c.get("meta", {}).get("scenario"), feat=c.get("meta", {}).get("feat"),
                   cold=c.get("meta", {}).get("cold"), errkind=rec.get("errkind"))
        desc = "C10: %s -- %s, %s fault errno=%s at %s (n=%s) in scenario %s [%s%s]; outcome=%s %s" % (
            b["what"], b["op"], b["kind"], b["errno"], b["site"], b["n"], sig["scenario"], sig["feat"], ", cold" if sig["cold"] else "", rec.get("outcome"), rec.get("errkind"))
        v.violation(sig, desc, c)
    # containment under faults: the same traces through TraceFS (C03 predicates); reported under C10
    badfs, kmm, n_tr, n_ev, st = validate_fs_traces(results, cases)
    for b in badfs:
        c = by_id.get(b["case"], {})
        sig = dict(check="fault-containment", what=b["what"], nr=b["nr"], scenario=c.get("meta", {}).get("scenario"))
        v.violation(sig, "C10 (containment under faults): %s in %s" % (b["what"], b["case"]), c)
    # the bounded EAGAIN retry as a behaviour of Lookup.tla (K_Openat2, KRetry = 16): recorded openat2 sequences of
    # lookups under n injected EAGAINs must be accepted by TraceLookup -- n < 16 ends with the kernel's answer,
    # n >= 16 with a safety violation after exactly 16 attempts
    from checks import race
    ecases = []
    for call in (dict(op="resolve", path="a/b/c"), dict(op="resolve", path="la/../nx", nofollow=True), dict(op="open", path="la/c", oflags=O["RDONLY"] | O["DIRECTORY"]),
                 dict(op="open", path="f", oflags=O["PATH"]), dict(op="readlink", path="la")):
        for n in (1, 2, 15, 16, 17, 40, 5000):
            ecases.append(dict(id="eagain-conf|%s|%s|%d" % (call["op"], call["path"], n), tree=race.RACE_TREES["links"], feat={"openat2": True}, trace=True, raw=False,
                               calls=[call], faults=[dict(call=0, nr="openat2", errno=11, count=n)]))
    eb_cases = [dict(id="eagain-base|%d" % i, tree=race.RACE_TREES["links"], feat={"openat2": True}, trace=False, calls=[cl])
                for i, cl in enumerate({json.dumps(c["calls"][0], sort_keys=True): c["calls"][0] for c in ecases}.values())]
    ebase = {json.dumps(c["calls"][0], sort_keys=True): r for c, r in zip(eb_cases, run_pv(eb_cases, jobs=4, tag="C10eb"))}
    bounds = set()
    eres = run_pv(ecases, jobs=8, tag="C10e")
    econf = lookup_conformance(ecases, eres)
    for d in econf["drift"][:5]:
        v.notes.append("MODEL-DRIFT Lookup.tla K_Openat2: %s first unmatched %s" % (d["case"], json.dumps(d["first_unmatched"])[:200]))
    for c, r in zip(ecases, eres):
        n = c["faults"][0]["count"]
        o = lib_outcome(((r.get("out") or [{}])[0].get("results") or [{}])[0])
        natt = sum(1 for e in r.get("events", []) if e.get("ev") == "sys" and e.get("nr") == "openat2" and e.get("dfd_class") == "tree")
        base = lib_outcome(((ebase[json.dumps(c["calls"][0], sort_keys=True)].get("out") or [{}])[0].get("results") or [{}])[0])
        bounds.add(natt if o == ("err", "SAFETY") else 0)
        # sound for any retry bound b with 3 <= b < 5000: the outcome is the unfaulted one or a safety violation, the
        # first two EAGAINs are ridden out, a persistent sequence is not; the exact bound (16) is evidence and model drift
        if o not in (base, ("err", "SAFETY")) or (n <= 2 and o != base) or (n >= 5000 and o != ("err", "SAFETY")):
            v.violation(dict(check="eagain-bound", op=c["calls"][0]["op"], n=n, outcome=list(o), attempts=natt),
                        "C10: %s under %d consecutive EAGAINs of openat2 made %d attempts and returned %s; the unfaulted call returns %s" % (c["calls"][0], n, natt, o, base), c)
    wall = time.time() - t0
    rc = v.finish()
    samples = [dict(case=r["case"], op=r["op"], site=r["site"], errno=r["errno"], fired=r["fired"], outcome=r["outcome"], errkind=r["errkind"][:80]) for r in recs[:3] + recs[-3:]]
    distinct = len({(r["op"], r["kind"], r["site"].split("@")[0], r["errno"], r["outcome"]) for r in recs if r["fired"]})
    cov = dict(states=tr["tlc"]["distinct"] + st, transitions=len(recs) + n_ev, traces_validated_against_impl=len(recs), samples=samples,
               evaluations=len(cases), distinct_nontrivial=distinct,
               rule="a case = (scenario call, feature set, cold/warm, fault: single (index i of the real injectable-syscall sequence, errno) | n x EAGAIN on openat2 | EMFILE on every fd-creating call from index i); "
                    "non-trivial = the fault actually fired; distinct = distinct (operation, fault kind, syscall, errno, outcome class)",
               exhaustive=not quick, single_fault_space=space, fired=stats["fired"], not_fired=stats["not_fired"],
               outcomes={k: n for k, n in stats.items() if k.startswith("outcome_")}, eagain_runs_with_natural_eagain=stats["eagain_runs_with_natural_eagain"], kernel_model_mismatches=len(kmm),
               eagain_model_conformance=dict(validated=econf["validated"], accepted=econf["accepted"], drift=econf["drift"][:5], retry_bound_observed=sorted(bounds - {0})), build_s=round(build_s, 1))
    write_evidence("C10", tier_, "model_checking", cov, ASSUME, wall, len(v.violations))
    return rc
