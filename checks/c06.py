"""C06: procfs calls return only genuine procfs objects under any over-mounts."""
import json, time, random, collections
from lib.common import *
from checks import procfs_cases as pc

ASSUME = ["over-mounts are real mount(2) calls in the shard's private mount namespace on its view of the host /proc; handles are created through try_from_fd on descriptors the harness obtains with fsopen/fsmount, open_tree (plain and recursive) and open",
          "genuineness of a returned descriptor = f_type is PROC_SUPER_MAGIC, st_dev equals the handle root's st_dev, and (st_dev, st_ino) differs from every over-mount source",
          "kernels that report mount ids (this one: STATX_MNT_ID_UNIQUE)"]


RACE_TARGETS = [("self", "status", [("/proc/{pid}/status", "bind-file"), ("/proc/{pid}/status", "bind-procfile"), ("/proc/self", "bind-symlink")]),
                ("self", "attr/current", [("/proc/{pid}/attr", "tmpfs"), ("/proc/{pid}/attr/current", "bind-procfile"), ("/proc/{pid}/attr", "bind-procdir")]),
                ("root", "stat", [("/proc/stat", "bind-file"), ("/proc/stat", "bind-procfile")]),
                ("thread-self", "status", [("/proc/{pid}/task/{pid}/status", "bind-file"), ("/proc/thread-self", "bind-symlink")])]


def racing_mounts(v, quick, rnd):
    """every placement of one racing mount(2) between the procfs-relative syscalls of a non-following
    open, for every handle kind and both resolvers (ptrace-scheduled; the mounter is the supervisor)"""
    base_cases, idx = [], []
    for hk, how in pc.HOW.items():
        for rs, feat in (("openat2", {"openat2": True}), ("opath", {"openat2": False})):
            for base, path, mounts in RACE_TARGETS:
                for fl in (O["RDONLY"] | O["NONBLOCK"], O["PATH"]):
                    calls = [dict(op="proc_from_fd", how=how), dict(op="proc_open", base=base, path=path, oflags=fl)]
                    base_cases.append(dict(id="rmb|%d" % len(base_cases), tree=[], feat=feat, trace=True, raw=False, proc_relevant=True, calls=calls))
                    idx.append((hk, rs, base, path, mounts, fl, calls, feat))
    order = sorted(range(len(base_cases)), key=lambda i: json.dumps(base_cases[i]["feat"]))
    bres = run_pv([base_cases[i] for i in order], jobs=8, tag="C06rb")
    cases = []
    for i, br in zip(order, bres):
        hk, rs, base, path, mounts, fl, calls, feat = idx[i]
        ks = [e.get("k", -1) for e in br.get("events", []) if e.get("ev") == "sys" and e.get("rel") and e.get("call") == 1]
        n = max(ks) + 1 if ks else 0
        baseline = lib_outcome(br["out"][0]["results"][1]) if br.get("out") and "results" in br["out"][0] and len(br["out"][0]["results"]) > 1 else ("err", "?")
        for (target, kind) in mounts:
            for k in range(n + 1):
                cases.append(dict(id="rm|%s|%s|%s|%s|%s|%s|%d" % (hk, rs, base, path, target, kind, k), tree=[], feat=feat, trace=True, raw=False, proc_relevant=True, calls=calls,
                                  sched=[dict(call=1, k=k, acts=[dict(act="mount", target=target, kind=kind, src=pc.SRC[kind])])],
                                  meta=dict(hk=hk, rs=rs, base=base, path=path, target=target, kind=kind, k=k, baseline=list(baseline), fl=fl)))
    space = len(cases)
    if quick and len(cases) > 500:
        # symlink over-mounts on the host-visible handle kinds redirect the walk instead of failing it: never sampled out
        # ... and so do procfs-on-procfs binds: they pass the filesystem-type check, only the mount id tells them apart
        ishot = lambda c: c["meta"]["kind"] in ("bind-symlink", "bind-procfile", "bind-procdir") and pc.sees(c["meta"]["hk"])
        hot = [c for c in cases if ishot(c)]
        rest = [c for c in cases if not ishot(c)]
        rnd.shuffle(rest)
        cases = hot + rest[:300]
    cases.sort(key=lambda c: json.dumps(c["feat"]))
    res = run_pv(cases, jobs=8, tag="C06r")
    fired = 0
    for c, r in zip(cases, res):
        m = c["meta"]
        if r.get("status") != "ok" or not r.get("out") or "results" not in r["out"][0] or len(r["out"][0]["results"]) < 2:
            continue
        atts = [e for e in r.get("events", []) if e.get("ev") == "att"]
        if not atts or atts[0].get("ret") != 0:
            continue
        fired += 1
        h, x = r["out"][0]["results"][0], r["out"][0]["results"][1]
        got = lib_outcome(x)
        src = crate_src = None
        desc = "proc_open(%s, %r, %#o) on a %s handle [%s resolver] with %s mounted on %s before procfs syscall #%d" % (m["base"], m["path"], m["fl"], m["hk"], m["rs"], m["kind"], m["target"], m["k"])
        if got[0] == "ok":
            if x.get("fstype") != pc.PROC_MAGIC:
                v.violation(dict(check="procfs-racing-mount", what="not procfs", hk=m["hk"], rs=m["rs"], path=m["path"], kind=m["kind"]), "C06: %s: returned an object that is not on procfs (f_type %#x)" % (desc, x.get("fstype") or 0), c)
            elif (x.get("rawdev"), x.get("rawino")) == (atts[0].get("src_dev"), atts[0].get("src_ino")) and atts[0].get("src_ino"):
                v.violation(dict(check="procfs-racing-mount", what="over-mounted object", hk=m["hk"], rs=m["rs"], path=m["path"], kind=m["kind"]), "C06: %s: returned the object of the racing over-mount" % desc, c)
            else:
                node = {("self", "status"): "status", ("self", "attr/current"): "attrcur", ("root", "stat"): "stat", ("thread-self", "status"): "tidstatus"}.get((m["base"], m["path"]))
                w = pc.wrong_object(x, node, r.get("wpid"))
                if w:
                    v.violation(dict(check="procfs-racing-mount", what="another procfs object", hk=m["hk"], rs=m["rs"], path=m["path"], kind=m["kind"]),
                                "C06: %s: %s (a genuine procfs object, but not the one the path names)" % (desc, w), c)
        if not pc.sees(m["hk"]) and tuple(m["baseline"]) != got and not (got[0] == "ok" and m["baseline"][0] == "ok"):
            v.violation(dict(check="procfs-racing-mount-private", hk=m["hk"], rs=m["rs"], path=m["path"], kind=m["kind"], got=list(got)),
                        "C06: %s: outcome %s differs from the unraced outcome %s although the handle is private" % (desc, got, tuple(m["baseline"])), c)
    return dict(racing_space=space, racing_executed=len(cases), racing_fired=fired)


CBASE = {"self": 0x091D5E1F, "thread-self": 0x3EAD5E1F, "root": 0x5001FFFF}
THREAD_CASES = [("self", "status", "open", O["RDONLY"], "/{pid}/status"), ("thread-self", "status", "open", O["RDONLY"], "/{pid}/task/{tid}/status"),
                ("thread-self", "comm", "open", O["RDONLY"], "/{pid}/task/{tid}/comm"), ("self", "task", "open", O["RDONLY"] | O["DIRECTORY"], "/{pid}/task"),
                ("thread-self", "attr/current", "open", O["PATH"], "/{pid}/task/{tid}/attr/current"), ("self", "attr/current", "open", O["PATH"], "/{pid}/attr/current"),
                ("root", "thread-self", "readlink", 0, "{pid}/task/{tid}"), ("root", "self", "readlink", 0, "{pid}"),
                ("root", "thread-self", "open_follow", O["PATH"] | O["DIRECTORY"], "/{pid}/task/{tid}"), ("root", "self", "open_follow", O["PATH"], "/{pid}"),
                ("root", "thread-self/status", "open", O["RDONLY"], "/{pid}/task/{tid}/status"), ("root", "self/status", "open", O["RDONLY"], "/{pid}/status")]


def thread_callers(v):
    """'the real procfs object for the requested path' when the caller is not the thread-group leader: self is the process,
    thread-self the calling thread (the handle of the Rust API is created by the leader and used by the thread)"""
    from checks import scenarios
    cases = []
    for base, path, what, fl, want in THREAD_CASES:
        for api in ("rust", "c"):
            if api == "c" and what == "open_follow":
                continue
            for fname, feat in scenarios.FEATS:
                cfl = fl | (O["NOFOLLOW"] if api == "c" and what == "open" else 0)       # the C function follows unless told otherwise
                cases.append(dict(id="thr|%s|%s|%s|%s|%s" % (base, path, what, api, fname), tree=[], feat=feat, trace=False, cold=True,
                                  calls=[dict(op="proc_in_thread", base=base, cbase=CBASE[base], path=path, what=what, oflags=cfl, api=api)], meta=dict(base=base, path=path, what=what, api=api, feat=fname, want=want)))
    res = run_pv(cases, jobs=8, tag="C06t")
    n = 0
    for c, r in zip(cases, res):
        m = c["meta"]
        rs = (r.get("out") or [{}])[0].get("results") or []
        if r.get("status") != "ok" or not rs:
            v.violation(dict(check="procfs-thread", what="abnormal", case=c["id"]), "C06: abnormal termination: %s %s" % (r.get("status"), c["id"]), c)
            continue
        x = rs[0]
        n += 1
        desc = "%s(%s, %r) called by a thread that is not the thread-group leader [%s API, %s]" % (m["what"], m["base"], m["path"], m["api"], m["feat"])
        if not x.get("tid") or x.get("tid") == x.get("pid"):
            raise ToolError("thread case did not run in a secondary thread: %s" % json.dumps(x)[:200])
        want = m["want"].replace("{pid}", str(x["pid"])).replace("{tid}", str(x["tid"]))
        got = lib_outcome(x)
        if got[0] not in ("ok", "body"):
            v.violation(dict(check="procfs-thread", what="failed", base=m["base"], path=m["path"], op=m["what"], api=m["api"], feat=m["feat"]), "C06: %s failed with %s" % (desc, got), c)
        elif m["what"] == "readlink":
            if x.get("body") != want:
                v.violation(dict(check="procfs-thread", what="wrong body", base=m["base"], path=m["path"], api=m["api"], feat=m["feat"]), "C06: %s returned %r; for the calling thread (pid %s, tid %s) the link reads %r" % (desc, x.get("body"), x["pid"], x["tid"], want), c)
        else:
            if x.get("fstype") != pc.PROC_MAGIC:
                v.violation(dict(check="procfs-thread", what="not procfs", base=m["base"], path=m["path"], api=m["api"], feat=m["feat"]), "C06: %s returned an object that is not on procfs" % desc, c)
            elif x.get("fdpath") not in (want, "/proc" + want):
                v.violation(dict(check="procfs-thread", what="another procfs object", base=m["base"], path=m["path"], op=m["what"], api=m["api"], feat=m["feat"]),
                            "C06: %s returned %s; the requested path names %s (pid %s, calling thread %s)" % (desc, x.get("fdpath"), want, x["pid"], x["tid"]), c)
    return n


def main(tier_):
    t0 = time.time()
    quick = tier_ == "quick"
    rnd = random.Random(seed())
    v = Verdict("C06")
    build_s = build_harness()
    design = run_tlc("Procfs.tla", "MC_C06.cfg" if quick else "MC_C06_thorough.cfg", workers=8, timeout=1800)
    variants = {}
    for mech in ("ChkEachStep", "ChkFinal", "ChkLinkDentry", "ChkBase"):
        cfg = os.path.join(workdir(), "C06-%s.cfg" % mech)
        with open(cfg, "w") as f:
            f.write(open(os.path.join(SPEC, "MC_C06.cfg")).read().replace("%s = TRUE" % mech, "%s = FALSE" % mech))
        r = run_tlc("Procfs.tla", cfg, workers=8, timeout=600)
        variants[mech] = r["violated"]
    # the step machine with a racing mounter (ProcWalk.tla): GenuineStep for every placement of two racing mounts, and the
    # four mechanism variants (no per-step check, no final check, no check on symlink components = seeded C06a/b, link body
    # read by name = seeded C06c) must violate it
    pw = run_tlc("ProcWalk.tla", "MC_ProcWalk.cfg", workers=8, timeout=900)
    pw_variants = {name: run_tlc("ProcWalk.tla", "MC_ProcWalk_%s.cfg" % name, workers=8, timeout=900)["violated"] for name in ("skipsym", "byname", "nostep", "nofinal")}
    gen, gcases, total = pc.generate("MC_C06_gen.cfg" if quick else "MC_C06_thorough_gen.cfg", rnd, 1500 if quick else None)
    cases, res = pc.execute(gcases)
    # the same cases as a kernel of the 5.8 - 6.7 series would answer them: STATX_MNT_ID_UNIQUE is cleared from every statx
    # request mask by the supervisor, so only the classic STATX_MNT_ID comes back (host-visible handles; the others never
    # see an over-mount)
    old_k = [dict(c, id=c["id"] + "|classic-mnt-id", trace=True, raw=False, statx_clear=0x4000) for c in cases if c["meta"]["g"]["om"] and pc.sees(c["meta"]["g"]["hk"])]
    if quick and len(old_k) > 300:
        rnd.shuffle(old_k)
        old_k = old_k[:300]
    old_k.sort(key=lambda c: json.dumps(c["feat"]))
    res_old = run_pv(old_k, jobs=8, tag="C06o")
    n_cleared = sum(1 for r in res_old for e in r.get("events", []) if e.get("mask_cleared"))
    cases, res = cases + old_k, res + res_old
    stats = collections.Counter()
    samples = []
    pending_private = []
    for c, r in zip(cases, res):
        g = c["meta"]["g"]
        if r.get("status") != "ok" or not r.get("out") or "results" not in r["out"][0]:
            v.violation(dict(check="procfs", what="abnormal", case=c["id"]), "C06: abnormal termination: %s %s" % (r.get("status"), json.dumps(g)[:200]), c)
            continue
        failed_mounts = [m for m in r.get("mounts", []) if not m.get("ok")]
        if failed_mounts:
            stats["mount_failed"] += 1
            continue
        rs = r["out"][0]["results"]
        h, x = rs[0], rs[1]
        if not h.get("ok"):
            stats["handle_failed"] += 1
            if len(v.notes) < 5:
                v.notes.append("handle %s could not be created: %s" % (g["hk"], json.dumps({k: h.get(k) for k in ("kind", "errno", "msg", "skip")})[:200]))
            continue
        stats["cases"] += 1
        exp = g["expect"]
        got = lib_outcome(x)
        srcs = {(m.get("src_dev"), m.get("src_ino")) for m in r.get("mounts", [])}
        desc = "%s(%s, %r) on a %s handle [%s resolver%s], over-mounts %s" % (g["op"], g["base"], c["calls"][1]["path"], g["hk"], g["rs"], ", kernel reporting only the classic STATX_MNT_ID" if c.get("statx_clear") else "",
                                                                        [(m["node"], m["kind"]) for m in g["om"]] or "none")
        if got[0] in ("ok", "body"):
            stats["ok"] += 1
            problems = []
            if got[0] == "ok":
                follows_magic = g["op"] == "open_follow" and exp.get("ok") and exp.get("node") == "outside"
                if not follows_magic:
                    if x.get("fstype") != pc.PROC_MAGIC:
                        problems.append("returned an object that is not on procfs (f_type %#x)" % (x.get("fstype") or 0))
                    elif h.get("hroot") and x.get("rawdev") != h["hroot"].get("rawdev") and g["hk"] != "fsopen_subset":
                        # (a masked, subset=pid handle retries ENOENT on a fresh unmasked private instance by design: C08)
                        problems.append("returned an object of another procfs instance than the handle's")
                if (x.get("rawdev"), x.get("rawino")) in srcs:
                    problems.append("returned the over-mounted object itself")
                if exp.get("ok") and not follows_magic:
                    w = pc.wrong_object(x, exp.get("node"), r.get("wpid"))
                    if w:
                        problems.append("returned another procfs object than the one the path names: " + w)
            if not exp.get("ok") and exp.get("err") == "EXDEV":
                problems.append("succeeded although an over-mount visible to the handle lies on the path (expected EXDEV)")
            for p in problems:
                v.violation(dict(check="procfs-genuine", what=p[:60], op=g["op"], hk=g["hk"], rs=g["rs"], path="/".join(g["path"]), om=[(m["node"], m["kind"]) for m in g["om"]]),
                            "C06: %s: %s" % (desc, p), c)
            if not problems and len(samples) < 3 and g["om"]:
                samples.append(dict(case=desc, result=dict(fstype=x.get("fstype"), mnt_id=x.get("mnt_id"), body=x.get("body"))))
        else:
            stats["err_" + str(got[1])] += 1
            if exp.get("ok") and not pc.sees(g["hk"]) and g["om"]:
                # "unaffected by such mounts": judged against the same call without any over-mount
                pending_private.append((c, g, got, desc))
            elif exp.get("ok"):
                stats["model_ok_real_err"] += 1
                if len(v.notes) < 12:
                    v.notes.append("model expects success, library fails with %s: %s" % (got[1], desc))
            elif exp.get("err") == "EXDEV" and got[1] not in ("EXDEV", "SAFETY"):
                stats["exdev_other_errno"] += 1
                if len(v.notes) < 12:
                    v.notes.append("over-mount rejected with %s instead of EXDEV: %s" % (got[1], desc))
            if len(samples) < 6 and g["om"] and got[1] == "EXDEV":
                samples.append(dict(case=desc, result="EXDEV"))
    # ---- one racing mount, placed before every procfs-relative syscall of a non-following open
    race_stats = racing_mounts(v, quick, rnd)
    n_thread = thread_callers(v)
    if pending_private:
        twins = [dict(c, id=c["id"] + "-nomounts", mounts=[]) for c, g, got, desc in pending_private]
        tres = run_pv(twins, jobs=4, tag="proc2")
        for (c, g, got, desc), tr in zip(pending_private, tres):
            tgot = lib_outcome(tr["out"][0]["results"][1]) if tr.get("out") and "results" in tr["out"][0] else ("err", "?")
            if tgot != got:
                v.violation(dict(check="procfs-private", op=g["op"], hk=g["hk"], rs=g["rs"], path="/".join(g["path"]), got=list(got)),
                            "C06: %s: %s, but %s without the over-mounts: a handle backed by a private procfs instance was affected by them" % (desc, got, tgot), c)
            else:
                stats["model_ok_real_err"] += 1
                if len(v.notes) < 12:
                    v.notes.append("model expects success, library fails with %s with and without over-mounts: %s" % (got[1], desc))
    rc = v.finish()
    cov = dict(states=design["distinct"], transitions=design["states"], traces_validated_against_impl=stats["cases"], samples=samples or [dict(note="none")], evaluations=len(cases),
               distinct_nontrivial=len([c for c in cases if c["meta"]["g"]["om"]]),
               rule="case = (over-mount set of <= %d mounts over 10 mountable nodes x kinds, handle kind, resolver, base, path, op) generated by TLC; non-trivial = at least one over-mount is present" % (1 if quick else 2),
               exhaustive=not quick, generated=total, racing_step_model=dict(states=pw["distinct"], complete=pw["complete"], violated=pw["violated"], variants=pw_variants), classic_mnt_id_cases=len(old_k), statx_masks_rewritten=n_cleared, design_complete=design["complete"], design_violated=design["violated"], mechanism_removal_variants=variants,
               mount_failed=stats["mount_failed"], handle_failed=stats["handle_failed"], outcomes={k: n for k, n in stats.items() if k.startswith(("ok", "err_"))},
               racing_mounts=race_stats, thread_caller_cases=n_thread, model_ok_real_err=stats["model_ok_real_err"], exdev_other_errno=stats["exdev_other_errno"], notes=v.notes[:12], build_s=round(build_s, 1))
    write_evidence("C06", tier_, "model_checking", cov, ASSUME, time.time() - t0, len(v.violations))
    return rc
