"""./check replay <file>: re-execute the case stored in a replay file under the supervisor and
print what the library did (and, for traced cases, the TLC trace-validation verdict)."""
import json, sys
from lib.common import *
from lib.project import *


def main(path):
    d = json.load(open(path))
    case = d.get("case") or {}
    print("property:", d.get("property"))
    print("description:", d.get("description"))
    if not case.get("calls"):
        print("(this replay file carries no executable case: %s)" % json.dumps(case)[:300])
        return 0
    build_harness()
    case.setdefault("id", "replay")
    case.setdefault("tree", [])
    case.setdefault("feat", {})
    psl = case.get("feat", {}).get("psl")
    if psl is not None:
        # C15 cases run with fs.protected_symlinks set to the case's value (machine-global: exclusive lock, restored)
        import fcntl
        lock = open("/dev/shm/pathrs-verif-sysctl.lock", "w")
        fcntl.flock(lock, fcntl.LOCK_EX)
        orig = open("/proc/sys/fs/protected_symlinks").read().strip()
        open("/proc/sys/fs/protected_symlinks", "w").write(str(psl))
        try:
            res = run_pv([case], jobs=1, tag="replay")[0]
        finally:
            open("/proc/sys/fs/protected_symlinks", "w").write(orig)
            fcntl.flock(lock, fcntl.LOCK_UN)
    else:
        res = run_pv([case], jobs=1, tag="replay")[0]
    print("status:", res.get("status"))
    for o in res.get("out", []):
        for r in o.get("results", []):
            print("  result:", json.dumps({k: v for k, v in r.items() if not k.startswith("fds_")})[:400])
    for e in res.get("events", []):
        if e.get("ev") in ("att",) or (e.get("ev") == "sys" and e.get("rel")):
            print("  event:", json.dumps({k: e.get(k) for k in ("ev", "who", "nr", "act", "dfd_id", "path", "ret", "k") if k in e}))
    if case.get("trace"):
        bad, kmm, n_tr, n_ev, st = validate_fs_traces([res], [case])
        for b in bad:
            print("  TLC:", b["prop"], b["what"], b["nr"], b["d1"], b["n1"])
        if bad:
            print("VIOLATION property=%s replay=%s" % (d.get("property"), path))
            return 1
    return 0
