"""C11: calls leave the descriptor table unchanged except for the returned descriptor.
Judged by TLC (spec/TraceDiscipline.tla) on the syscall ledger of every traced call and on the
/proc/self/fd listing the worker takes before and after every call."""
from lib.common import *
from checks import c05

ASSUME = ["the worker lists /proc/self/fd (number, identity, FD_CLOEXEC) immediately before and after each library call, outside the traced window",
          "the process-lifetime procfs root of the lazily initialised global handle is attributed to the initialising call (at most one per worker process, must be a close-on-exec procfs root)",
          "explored executions: scenario catalogue x feature sets x {warm, cold, descriptor 0 free}, attacker-interleaved and fault-injected runs"]


def main(tier_):
    verdicts, cov, wall = c05.run(("C11",), tier_)
    v = verdicts["C11"]
    rc = v.finish()
    write_evidence("C11", tier_, "model_checking", cov, ASSUME, wall, len(v.violations))
    return rc
