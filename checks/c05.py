"""C05 (and the syscall-ledger half of C11): TLC trace validation of the raw syscall stream of
every library call against the provenance automaton spec/TraceDiscipline.tla."""
import json, time, random, collections
from lib.common import *
from lib.project import *
from checks import scenarios, race

ASSUME = ["the ptrace supervisor sees every system call of the worker thread while it is inside a library call (single-threaded worker)",
          "the automaton's exception list (capability probes, /proc constructors, diagnostics readlink of /proc/thread-self/fd/N, Root::open of the caller's path) is the documented legitimate use of AT_FDCWD/absolute paths",
          "executions explored: the scenario catalogue (every public operation, success and error paths, Rust API and C ABI) x feature sets, plus attacker and fault-injected runs"]


def build_cases(tier_, rnd):
    cases = []
    for sc in scenarios.scenarios():
        for fname, feat in scenarios.FEATS:
            for cold in ((False, True) if tier_ != "quick" or sc["name"].startswith(("lookup-ok", "reopen", "proc")) else (False,)):
                cases.append(dict(id="%s|%s|%s" % (sc["name"], fname, "cold" if cold else "warm"), tree=sc["tree"], feat=feat, trace=True, raw=True,
                                  cold=cold, calls=sc["calls"], meta=dict(scenario=sc["name"], feat=fname, cold=cold)))
    # the same scenarios with descriptor 0 free (stdin closed): the library's first open gets fd 0
    for sc in scenarios.scenarios():
        if sc["name"].split("-")[0] in ("lookup", "open", "reopen", "mkdir_all", "create_file", "proc", "remove_all"):
            for fname, feat in scenarios.FEATS[:2]:
                cases.append(dict(id="%s|%s|fd0" % (sc["name"], fname), tree=sc["tree"], feat=feat, trace=True, raw=True, close0=True,
                                  calls=sc["calls"], meta=dict(scenario=sc["name"] + "+fd0", feat=fname)))
    # attacked runs (error paths after detection) on the race trees
    for tname, nodes in race.RACE_TREES.items():
        for path in race.LOOKUP_PATHS[tname][:3]:
            for k in (2, 5, 9, 14, 20) if tier_ == "quick" else range(0, 40, 2):
                for a in race.repertoire(nodes)[:(3 if tier_ == "quick" else 12)]:
                    cases.append(dict(id="atk|%s|%s|%d|%s" % (tname, path, k, json.dumps(a, sort_keys=True)), tree=nodes, feat={"openat2": False}, trace=True, raw=True,
                                      calls=[dict(op="resolve", path=path)], sched=[dict(call=0, k=k, acts=[a])], meta=dict(scenario="attacked-lookup", feat="emulated")))
    # fault-injected runs (error paths)
    for sc in scenarios.scenarios():
        if tier_ == "quick" and not sc["name"].endswith("-rust"):
            continue
        for fname, feat in scenarios.FEATS[:2]:
            for i in ((1, 4, 9, 16) if tier_ == "quick" else range(0, 60, 3)):
                for errno in ((13, 24, 11) if tier_ == "quick" else (4, 5, 11, 12, 13, 23, 24)):
                    cases.append(dict(id="flt|%s|%s|%d|%d" % (sc["name"], fname, i, errno), tree=sc["tree"], feat=feat, trace=True, raw=True, calls=sc["calls"][:3],
                                      faults=[dict(call=rnd.randrange(min(3, len(sc["calls"]))), i=i, errno=errno)], meta=dict(scenario="fault-" + sc["name"], feat=fname)))
    # EAGAIN answers of the procfs-relative openat2 calls of reopen / procfs operations (a rename or mount elsewhere on the
    # machine): whatever the library does about them must keep the discipline
    for sc in scenarios.scenarios():
        if not sc["name"].startswith(("reopen-", "proc-")):
            continue
        for j in range(len(sc["calls"])):
            for n in (1, 3):
                cases.append(dict(id="eagain-proc|%s|%d|%d" % (sc["name"], j, n), tree=sc["tree"], feat={"openat2": True}, trace=True, raw=True, calls=sc["calls"],
                                  faults=[dict(call=j, nr="openat2", errno=11, count=n, cls="proc")], meta=dict(scenario="eagain-proc-" + sc["name"], feat="kernel")))
    # concurrent first use of the global procfs handle by the threads of one process (untraced: judged on the descriptor listing)
    from checks import c09
    cases += c09.thread_race_cases()
    return cases


def run(props, tier_):
    t0 = time.time()
    rnd = random.Random(seed())
    build_s = build_harness()
    cases = build_cases(tier_, rnd)
    cases.sort(key=lambda c: (json.dumps(c["feat"], sort_keys=True), not c.get("cold", False)))
    results = run_pv(cases, jobs=12, tag="disc")
    bad, n_tr, n_ev, states = validate_raw_traces(results, cases)
    by_id = {str(c["id"]): c for c in cases}
    verdicts = {p: Verdict(p) for p in props}
    shapes = collections.Counter()
    n_sys = 0
    for r, c in zip(results, cases):
        for e in r.get("events", []):
            if e.get("ev") == "sys":
                n_sys += 1
                shapes[(e["nr"], e.get("dfd_class", ""), (e.get("flags", 0) if isinstance(e.get("flags", 0), int) else 0), e.get("resolve", 0))] += 1
    for b in bad:
        if b["prop"] not in verdicts:
            continue
        c = by_id.get(b["case"], {})
        meta = c.get("meta", {})
        sig = dict(check="discipline", what=b["what"], nr=b["nr"], scenario=meta.get("scenario"), feat=meta.get("feat"))
        desc = "%s: %s -- syscall %s path=%r flags=%s in scenario %s [%s]" % (b["prop"], b["what"], b["nr"], b["path"], b["flags"], meta.get("scenario"), meta.get("feat"))
        verdicts[b["prop"]].violation(sig, desc, c)
    abnormal = [r.get("status") for r in results if r.get("status") != "ok"]
    samples = []
    for r, c in list(zip(results, cases))[:3]:
        samples.append(dict(case=c["id"], events=[{k: v for k, v in e.items() if k in ("nr", "dfd_class", "path", "flags", "resolve", "ret")} for e in r.get("events", []) if e.get("ev") == "sys"][:14]))
    cov = dict(states=max(states, 1), transitions=max(n_ev, 1), traces_validated_against_impl=n_tr, samples=samples, evaluations=len(cases),
               distinct_nontrivial=len(shapes),
               rule="a case = (scenario or attacked/fault-injected lookup, feature set, cold/warm process) traced at syscall granularity; distinct_nontrivial = number of distinct syscall shapes (syscall, descriptor class, flags, resolve mask) observed inside library calls",
               exhaustive=False, syscalls_judged=n_sys, trace_events=n_ev, abnormal_runs=len(abnormal), build_s=round(build_s, 1))
    return verdicts, cov, time.time() - t0


def main(tier_):
    verdicts, cov, wall = run(("C05",), tier_)
    v = verdicts["C05"]
    rc = v.finish()
    write_evidence("C05", tier_, "model_checking", cov, ASSUME, wall, len(v.violations))
    return rc
