"""C07: procfs lookups stay inside procfs and follow only the requested final link.
 (M) TLC: Procfs.tla invariants NoLeave / MagicComponentRefused / OpenNeverFollows over the
     skeleton; ProcClass.tla is the class-level oracle (entry class x decoration x operation).
 (V) the live contents of /proc, /proc/self and /proc/thread-self of the worker are classified and
     every entry is looked up with every decoration and operation through ProcfsHandle with the
     openat2 resolver and with the emulated resolver; outcomes must match the class table and --
     for sub-paths without '..' -- each other."""
import json, time, random, collections
from lib.common import *

ASSUME = ["entries are classified by lstat + the shape of the link text (absolute or 'type:[ino]' = magic-link)",
          "files in /proc may legitimately refuse to open (permissions, EIO, ...): for class 'file' any errno other than ENOTDIR/ELOOP/EXDEV/ENOENT is accepted in place of success, but both resolvers must agree",
          "the handle is ProcfsHandle::new() (private fsopen instance for the privileged worker); both procfs resolvers are selected by masking openat2"]
DECO = {"": "%s", "/": "%s/", "/.": "%s/.", "/..": "%s/..", "/nx-child": "%s/nx-child", "./": "./%s", "/..NUL": "%s/..\x00", "/./../..": "%s/./../.."}
OPS = {"open_rdonly": ("proc_open", O["RDONLY"] | O["NONBLOCK"]), "open_path": ("proc_open", O["PATH"]), "open_dir": ("proc_open", O["RDONLY"] | O["DIRECTORY"] | O["NONBLOCK"]),
       "open_follow_path": ("proc_open_follow", O["PATH"]), "open_follow_dir": ("proc_open_follow", O["PATH"] | O["DIRECTORY"]), "readlink": ("proc_readlink", 0),
       "open_follow_nf_path": ("proc_open_follow", O["PATH"] | O["NOFOLLOW"]), "open_follow_nf_rdonly": ("proc_open_follow", O["RDONLY"] | O["NONBLOCK"] | O["NOFOLLOW"]),
       "open_excl": ("proc_open", O["EXCL"] | O["RDONLY"] | O["NONBLOCK"]), "open_follow_excl": ("proc_open_follow", O["EXCL"] | O["RDONLY"] | O["NONBLOCK"]),
       "open_follow_creat_excl": ("proc_open_follow", O["CREAT"] | O["EXCL"] | O["RDWR"]), "open_follow_tmpbit": ("proc_open_follow", 0o20000000 | O["RDWR"]),
       "open_creat": ("proc_open", O["CREAT"] | O["RDWR"]), "open_follow_creat": ("proc_open_follow", O["CREAT"] | O["RDWR"]), "open_tmpfile": ("proc_open", O["TMPFILE"] | O["RDWR"])}
SKIP = {"kmsg", "kcore", "sysrq-trigger", "kpagecount", "kpageflags", "kpagecgroup", "kallsyms", "pagemap", "mem", "clear_refs"}


def classify(x, kind):
    o = lib_outcome(x)
    if o[0] == "body":
        return "body"
    if o[0] == "ok":
        if kind in ("symdir", "symfile", "magic"):
            return "self" if x.get("ft") == "lnk" else "target"
        return "self"
    return o[1]


def acceptable(exp, got, kind, final):
    if exp == got:
        return True
    if kind == "magic" and got in ("EACCES", "EPERM"):
        return True      # a magic-link of another process that the caller may not read: the kernel itself denies it
    if exp == "ERR":
        return got not in ("self", "target", "body")
    if exp == "ERR-or-inside":
        return got != "body"      # an error, or a directory that is still beneath the base
    if exp == "target-or-ENOTDIR":
        return got in ("target", "ENOTDIR")
    if exp == "self" and kind == "file":
        return got not in ("target", "body", "ENOTDIR", "ELOOP", "EXDEV", "ENOENT", "SAFETY", "InvalidArgument")
    if exp == "self" and kind == "dir":
        return got in ("EACCES", "EPERM")
    if exp == "target":
        return got in ("EACCES", "EPERM", "ENOENT") and kind == "magic"     # e.g. a magic-link whose target vanished / is not permitted
    return False


def main(tier_):
    t0 = time.time()
    quick = tier_ == "quick"
    rnd = random.Random(seed())
    v = Verdict("C07")
    build_s = build_harness()
    design = run_tlc("Procfs.tla", "MC_C06.cfg", workers=8, timeout=900)
    tab = run_tlc("ProcClass.tla", "MC_C07.cfg", workers=2, timeout=300)
    table = next((b for t, b in tab["prints"] if t == "CASES"), None)
    if table is None or not tab["complete"]:
        raise ToolError("ProcClass table not produced: %s" % tab["out"][-1000:])
    expect = {(r["k"], r["d"], r["o"]): r["e"] for r in table}
    enum = run_pv([dict(id="enum", tree=[], feat={}, trace=False, calls=[dict(op="proc_live_enum")])], jobs=1, tag="C07e")
    entries = enum[0]["out"][0]["results"][0]["entries"]
    entries = [e for e in entries if e["name"] not in SKIP]
    if quick:
        keep = [e for e in entries if e["base"] != "root" or e["kind"] != "file"]
        rootfiles = [e for e in entries if e["base"] == "root" and e["kind"] == "file"]
        rnd.shuffle(rootfiles)
        entries = keep + rootfiles[:12]
    cases, idx = [], []
    for bname, feat in (("openat2", {"openat2": True}), ("opath", {"openat2": False})):
        B = 60
        lst = [(e, d, o) for e in entries for d in DECO for o in OPS]
        for b0 in range(0, len(lst), B):
            chunk = lst[b0:b0 + B]
            calls = [dict(op="proc_new")]
            for e, d, o in chunk:
                opn, fl = OPS[o]
                calls.append(dict(op=opn, base={"root": "root", "self": "self", "thread-self": "thread-self"}[e["base"]], path=DECO[d] % e["name"], oflags=fl))
            cases.append(dict(id="live|%s|%d" % (bname, b0), tree=[], feat=feat, trace=False, calls=calls))
            idx.append((bname, chunk))
    res = run_pv(cases, jobs=8, tag="C07")
    got = collections.defaultdict(dict)
    for (bname, chunk), r in zip(idx, res):
        if r.get("status") != "ok" or not r.get("out") or "results" not in r["out"][0]:
            raise ToolError("C07 batch failed: %s" % json.dumps(r)[:300])
        rs = r["out"][0]["results"][1:]
        for (e, d, o), x in zip(chunk, rs):
            got[(e["base"], e["name"], e["kind"], d, o)][bname] = classify(x, e["kind"])
    stats = collections.Counter()
    samples = []
    for (base, name, kind, d, o), g in got.items():
        exp = expect[(kind, d, o)]
        final = d in ("", "./")
        stats["lookups"] += len(g)
        path = DECO[d] % name
        for bname, cls in g.items():
            if not acceptable(exp, cls, kind, final):
                v.violation(dict(check="proc-class", kind=kind, deco=d, op=o, resolver=bname, got=cls, want=exp, name=name if kind != "file" else "<file>"),
                            "C07: %s(%s, %r) [%s resolver] on a %s entry gave %s; the class table (ProcClass.tla) expects %s" % (o, base, path, bname, kind, cls, exp), dict(base=base, path=path, op=o))
        # ("/..NUL": both must fail -- the class rule above -- but the emulated walk may meet another error before it reaches the NUL component)
        if d not in ("/..", "/..NUL", "/./../..") and len(g) == 2 and g["openat2"] != g["opath"]:
            v.violation(dict(check="proc-resolvers-agree", kind=kind, deco=d, op=o, openat2=g["openat2"], opath=g["opath"], name=name if kind != "file" else "<file>"),
                        "C07: %s(%s, %r) on a %s entry: openat2 resolver gives %s, emulated resolver gives %s" % (o, base, path, kind, g["openat2"], g["opath"]), dict(base=base, path=path, op=o))
        # ".." decorations: the emulated resolver may refuse (EXDEV) what RESOLVE_BENEATH still allows, never the other way
        # round -- a success of the emulated resolver where openat2 refuses means it climbed above the base
        if d in ("/..", "/./../..") and len(g) == 2 and g["opath"] in ("self", "target", "body") and g["openat2"] not in ("self", "target", "body"):
            v.violation(dict(check="proc-dotdot-leaves-base", kind=kind, deco=d, op=o, openat2=g["openat2"], opath=g["opath"]),
                        "C07: %s(%s, %r) on a %s entry: the emulated resolver succeeded (%s) through '..' where openat2 with RESOLVE_BENEATH refuses (%s): it left the base" % (o, base, path, kind, g["opath"], g["openat2"]), dict(base=base, path=path, op=o))
        if len(samples) < 6 and kind in ("magic", "symdir", "symfile") and d in ("/", "/nx-child"):
            samples.append(dict(base=base, path=path, op=o, kind=kind, openat2=g.get("openat2"), opath=g.get("opath"), expected=exp))
    rc = v.finish()
    cov = dict(states=design["distinct"], transitions=design["states"], traces_validated_against_impl=stats["lookups"], samples=samples, evaluations=stats["lookups"],
               distinct_nontrivial=len([k for k in got if k[2] in ("symdir", "symfile", "magic") or k[3] != ""]),
               rule="lookup = (live entry of /proc | /proc/self | /proc/thread-self, decoration in %s, operation in %s, resolver); non-trivial = the entry is a symlink/magic-link or the path is decorated" % (sorted(DECO), sorted(OPS)),
               exhaustive=not quick, live_entries=len(entries), entry_kinds=dict(collections.Counter(e["kind"] for e in entries)), class_table_rows=len(table),
               design_violated=design["violated"], build_s=round(build_s, 1))
    write_evidence("C07", tier_, "model_checking", cov, ASSUME, time.time() - t0, len(v.violations))
    return rc
