"""./check selftest: demonstrate that the trace specifications are bound to the recorded fields --
corrupting one recorded field or dropping one event must make TLC reject / flag the trace."""
import json, copy, sys
from lib.common import *
from lib.project import *
from checks import race


def main(tier_="quick"):
    build_harness()
    nodes = race.RACE_TREES["chain"]
    case = dict(id="self1", tree=nodes, feat={"openat2": False}, trace=True, raw=False, calls=[dict(op="resolve", path="a/b/../b/c")],
                sched=[dict(call=0, k=9, acts=[dict(act="rename", sp=9, sn="x", dp=3, dn="y")])])
    case["tree"] = nodes + [race.N(40, 9, "x", "dir")]
    res = run_pv([case], jobs=1, tag="self")[0]
    results = {}
    # 0. the genuine trace is accepted by both validators
    bad, kmm, *_ = validate_fs_traces([res], [case])
    ok, d, n, first, _ = validate_lookup_trace(res, case)
    results["genuine"] = dict(tracefs_bad=len(bad), tracefs_kmm=len(kmm), tracelookup_accepted=bool(ok))
    # 1. drop the attacker's event: the final snapshot no longer equals the model's tree
    r1 = copy.deepcopy(res)
    r1["events"] = [e for e in r1["events"] if e.get("ev") != "att"]
    bad, kmm, *_ = validate_fs_traces([r1], [case])
    results["drop_att_event"] = dict(tracefs_kmm=len(kmm), detected=len(kmm) > 0)
    # 2. corrupt the directory inode of one recorded openat: TraceLookup must reject at that event
    r2 = copy.deepcopy(res)
    opens = [e for e in r2["events"] if e.get("ev") == "sys" and e.get("nr") == "openat" and e.get("rel")]
    opens[2]["dfd_id"] = 9
    ok2, d2, n2, first2, _ = validate_lookup_trace(r2, case)
    results["corrupt_openat_dir"] = dict(accepted=bool(ok2), rejected_at=d2, of=n2, detected=not ok2)
    # 3. corrupt the returned inode of the lookup: C02 containment must flag it
    r3 = copy.deepcopy(res)
    r3["out"][0]["results"][0]["id"] = 1      # the root's parent
    bad, kmm, *_ = validate_fs_traces([r3], [case])
    results["corrupt_result_inode"] = dict(tracefs_bad=[b["what"] for b in bad], detected=any(b["prop"] == "C02" for b in bad))
    # 4. drop one d_path read (as if a check_current were skipped): TraceLookup must reject
    r4 = copy.deepcopy(res)
    idx = [i for i, e in enumerate(r4["events"]) if e.get("ev") == "sys" and e.get("nr") == "readlinkat" and e.get("dfd_class") == "proc" and (e.get("body") or "").startswith("/")]
    del r4["events"][idx[1]]
    ok4, d4, n4, first4, _ = validate_lookup_trace(r4, case)
    results["drop_dpath_read"] = dict(accepted=bool(ok4), detected=not ok4)
    # 5.-7. TraceMkdir2: a two-process mkdir_all run is accepted; a corrupted mkdirat name, a dropped mkdirat and a
    # flipped EEXIST result are rejected
    from checks import mkrm
    tname, calls = mkrm.MK2_SCENARIOS["S2"]
    mcase = dict(id="selfmk", tree=mkrm.CONC_TREES[tname], feat={"openat2": True}, trace=True, raw=False, procs=2, calls=[dict(c, proc=pi) for pi, c in enumerate(calls)],
                 order=[0, 1, 0, 0, 1, 1, 0] + [0] * 400, post=True)
    mres = run_pv([mcase], jobs=1, tag="selfmk")[0]
    def mk2(r):
        o = trace_conformance("MC_TraceMkdir2.tla", "TraceMkdir2.cfg", project_mkdir2, [(mcase, r)], batch=1)
        return o["accepted"] == 1 and not o["drift"] and not o["invariant_violations"], (o["drift"] or [{}])[0].get("at_event")
    okm, _ = mk2(mres)
    results["genuine"]["tracemkdir2_accepted"] = okm
    m1 = copy.deepcopy(mres)
    mk = [e for e in m1["events"] if e.get("ev") == "sys" and e.get("nr") == "mkdirat"]
    mk[1]["path"] = "zz"
    a1, at1 = mk2(m1)
    results["mkdir2_corrupt_mkdirat_name"] = dict(accepted=a1, rejected_at=at1, detected=not a1)
    m2 = copy.deepcopy(mres)
    i2 = [i for i, e in enumerate(m2["events"]) if e.get("ev") == "sys" and e.get("nr") == "mkdirat"][0]
    del m2["events"][i2]
    a2, at2 = mk2(m2)
    results["mkdir2_drop_mkdirat"] = dict(accepted=a2, rejected_at=at2, detected=not a2)
    m3 = copy.deepcopy(mres)
    ee = [e for e in m3["events"] if e.get("ev") == "sys" and e.get("nr") == "mkdirat" and e.get("ret") == -17]
    if ee:
        ee[0]["ret"] = 0
        ee[0]["new_id"] = 12
    a3, at3 = mk2(m3)
    results["mkdir2_flip_eexist"] = dict(accepted=a3, rejected_at=at3, detected=bool(ee) and not a3)
    # 8.-9. TraceRemove2: a two-process remove_all run is accepted; a dropped unlinkat and a reordered listing are rejected
    rtree = mkrm.CONC_TREES["rm"]
    rcase = dict(id="selfrm", tree=rtree, feat={"openat2": True}, trace=True, raw=False, procs=2, calls=[dict(op="remove_all", path="a/b", proc=0), dict(op="remove_all", path="a/b", proc=1)],
                 order=[0, 0, 0, 1, 1, 0, 0, 0, 1, 1, 1] + [0] * 600, post=True)
    rres = run_pv([rcase], jobs=1, tag="selfrm")[0]
    def rm2(r):
        o = trace_conformance("MC_TraceRemove2.tla", "TraceRemove2.cfg", project_remove2, [(rcase, r)], batch=1)
        return o["accepted"] == 1 and not o["drift"] and not o["invariant_violations"], (o["drift"] or [{}])[0].get("at_event")
    okr, _ = rm2(rres)
    results["genuine"]["traceremove2_accepted"] = okr
    q1 = copy.deepcopy(rres)
    iu = [i for i, e in enumerate(q1["events"]) if e.get("ev") == "sys" and e.get("nr") == "unlinkat" and e.get("ret") == 0][0]
    del q1["events"][iu]
    b1, bt1 = rm2(q1)
    results["remove2_drop_unlinkat"] = dict(accepted=b1, rejected_at=bt1, detected=not b1)
    q2 = copy.deepcopy(rres)
    gd = [e for e in q2["events"] if e.get("ev") == "sys" and e.get("nr") == "getdents64" and len(e.get("names") or []) >= 4]
    if gd:
        gd[0]["names"] = gd[0]["names"][:2] + gd[0]["names"][2:][::-1]
    b2, bt2 = rm2(q2)
    results["remove2_reorder_listing"] = dict(accepted=b2, rejected_at=bt2, detected=bool(gd) and not b2)
    print(json.dumps(results, indent=1))
    allok = results["genuine"].get("tracemkdir2_accepted") and results["genuine"].get("traceremove2_accepted") and results["genuine"]["tracefs_bad"] == 0 and results["genuine"]["tracefs_kmm"] == 0 and results["genuine"]["tracelookup_accepted"] and all(
        v.get("detected") for k, v in results.items() if k != "genuine")
    os.makedirs(EVID, exist_ok=True)
    json.dump(dict(binding_selftest=results, ok=allok), open(os.path.join(EVID, "binding_selftest.json"), "w"), indent=1)
    print("BINDING SELFTEST", "OK" if allok else "FAILED")
    return 0 if allok else 2
