"""C17: the C boundary validates arguments and respects caller buffers.
TLC (CBoundary.tla) enumerates the whole finite specification -- every exported function x
invalid-argument class, every (link length L, buffer size B) -- with the expected outcome; every
enumerated case is executed against the real C ABI (test per transition)."""
import json, time, random, collections
from lib.common import *
from checks.c10 import tree_shape

ASSUME = ["memory safety beyond the canaries around the caller buffer is outside what this technique can establish",
          "the worker's current directory is the root's parent, so a call that wrongly treats a negative descriptor as AT_FDCWD leaves visible traces in the outside snapshot",
          "EINVAL is the errno contract for invalid arguments (ErrorKind::InvalidArgument)"]

TREE = [dict(id=5, p=2, n="a", k="dir"), dict(id=6, p=2, n="f", k="file"), dict(id=7, p=2, n="argcase_second", k="file"),
        dict(id=8, p=1, n="a", k="dir"), dict(id=9, p=1, n="f", k="file"), dict(id=10, p=1, n="argcase_second", k="file")]


def main(tier_):
    t0 = time.time()
    v = Verdict("C17")
    build_s = build_harness()
    tlc = run_tlc("CBoundary.tla", "MC_C17.cfg" if tier_ == "quick" else "MC_C17_thorough.cfg", workers=2, timeout=600)
    spec = next((b for t, b in tlc["prints"] if t == "CASES"), None)
    if spec is None or not tlc["complete"]:
        raise ToolError("TLC did not enumerate CBoundary: %s" % tlc["out"][-1500:])
    cases = []
    for a in spec["args"]:
        c = a["c"]
        for p1 in (["argcase_new", "a", "f"] if c["cls"] in ("badfd",) else (["argcase_new", "a", ".", "a/../a/."] if c["cls"] == "badmode" else ["argcase_new"])):
            call = dict(op="capi_arg", api="c", f=c["f"], cls=c["cls"], val=c["val"], hi=c.get("hi", 0), which=c["which"], mode=c.get("mode", ""), p1=p1)
            if c["f"].startswith("proc_"):
                # a path that WOULD work under the base that the lower half alone spells
                root_lo = c["val"] == 1342308351
                call["p1"] = ("self" if root_lo else "cwd") if c["f"] == "proc_readlink" else ("uptime" if root_lo else "status")
            if c["f"] == "open_root" and c["cls"] != "nullpath":
                continue
            cases.append(dict(id="arg|%s|%s|%s:%s|%s|%s|%s" % (c["f"], c["cls"], c.get("hi", 0), c["val"], c["which"], c.get("mode", ""), p1), tree=TREE, feat={}, trace=False, calls=[call],
                              meta=dict(kind="arg", c=c, e=a["e"], p1=p1)))
    for cc in spec["copy"]:
        c = cc["c"]
        L, B = c["L"], c["B"]
        body = ("0123456789abcdefghijklmnopqrstuvwxyz" * 200)[:L]
        tree = [dict(id=5, p=2, n="lnk", k="lnk", b=body)]
        for nullsize in ([0, 7] if B < 0 else [0]):
            cases.append(dict(id="copy|%d|%d|%d" % (L, B, nullsize), tree=tree, feat={}, trace=False, calls=[dict(op="capi_copy", api="c", path="lnk", B=B, nullsize=nullsize)],
                              meta=dict(kind="copy", c=c, e=cc["e"], body=body)))
    # long bodies (PATH_MAX-sized) and the procfs variant around the real length
    for L in (255, 1024, 4094, 4095):      # 4095 = the longest link body the kernel stores
        body = ("x" * 200 + "/") * 30
        body = body[:L]
        for B in (-1, 0, 1, L - 1, L, L + 1, L + 100):
            cases.append(dict(id="copy-long|%d|%d" % (L, B), tree=[dict(id=5, p=2, n="lnk", k="lnk", b=body)], feat={}, trace=False,
                              calls=[dict(op="capi_copy", api="c", path="lnk", B=B)], meta=dict(kind="copy", c=dict(L=L, B=B), e=dict(ret=L, copied=0 if B < 0 else min(L, B)), body=body)))
    # link bodies that are not valid UTF-8 (paths are byte strings): the length and the bytes are those of the body
    for hexbody in ("636166e92f6e61ef7665", "fffe80746172676574", "61c3a9ff62"):
        L = len(hexbody) // 2
        for B in (-1, 0, 1, L - 1, L, L + 1, L + 8):
            cases.append(dict(id="copy-raw|%s|%d" % (hexbody, B), tree=[dict(id=5, p=2, n="lnk", k="lnk", b="", bhex=hexbody)], feat={}, trace=False,
                              calls=[dict(op="capi_copy", api="c", path="lnk", B=B)], meta=dict(kind="copy", c=dict(L=L, B=B), e=dict(ret=L, copied=0 if B < 0 else min(L, B)), body=None, hexbody=hexbody)))
    for B in (-1, 0, 1, 5, 64, 4096):
        cases.append(dict(id="copy-proc|%d" % B, tree=[], feat={}, trace=False, calls=[dict(op="capi_copy", api="c", path="exe", proc=True, B=B)],
                          meta=dict(kind="copyproc", c=dict(B=B))))
    res = run_pv(cases, jobs=8, tag="C17")
    stats = collections.Counter()
    samples = []
    proc_len = None
    for c, r in zip(cases, res):
        m = c["meta"]
        if r.get("status") != "ok" or not r.get("out") or "results" not in r["out"][0]:
            v.violation(dict(check="cboundary", what="abnormal termination", case=c["id"]), "C17: worker died / hung in case %s: %s" % (c["id"], r.get("status")), c)
            continue
        x = r["out"][0]["results"][0]
        stats["cases"] += 1
        if x.get("panic") is not None:
            v.violation(dict(check="cboundary", what="panic", f=m["c"].get("f"), cls=m["c"].get("cls")), "C17: panic in %s: %s" % (c["id"], x.get("panic")), c)
            continue
        if m["kind"] == "arg":
            cc = m["c"]
            problems = []
            if not x.get("is_errid"):
                problems.append("returned %s instead of an error id" % x.get("ret"))
            elif x.get("errno") != 22:
                problems.append("errorinfo errno is %s, not EINVAL" % x.get("errno"))
            if not x.get("rootfd_alive"):
                problems.append("the lent root descriptor was closed")
            if tree_shape(r["init"]) != tree_shape(r["final"]):
                problems.append("the tree changed (inside the root or in the current directory)")
            if x.get("fds_closed") or x.get("fds_changed") or [o for o in x.get("fds_opened", []) if not o.get("procroot")]:
                problems.append("descriptor table changed: opened=%s closed=%s changed=%s" % (x.get("fds_opened"), x.get("fds_closed"), x.get("fds_changed")))
            if not x.get("buf_untouched", True):
                problems.append("caller buffer written although the call failed validation")
            for p in problems:
                v.violation(dict(check="cboundary-arg", f=cc["f"], cls=cc["cls"], val=cc["val"], hi=cc.get("hi", 0), which=cc["which"], mode=cc.get("mode"), what=p.split(" (")[0][:40]),
                            "C17: pathrs_%s with %s (%s): %s" % (cc["f"], cc["cls"], ("%s (upper half %s)" % (cc["val"], cc.get("hi", 0)) if cc.get("hi") else cc["val"]) if cc["cls"] in ("badfd", "badbase") else (cc.get("mode") or "path #%s" % cc["which"]), p), c)
            if len(samples) < 3:
                samples.append(dict(case=c["id"], ret=x.get("ret"), errno=x.get("errno"), msg=(x.get("msg") or "")[:80]))
        elif m["kind"] == "copy":
            L, B, body = m["c"]["L"], m["c"]["B"], m["body"]
            exp = m["e"]
            problems = []
            if not x.get("ok"):
                problems.append("failed: %s" % json.dumps({k: x.get(k) for k in ("errno", "msg")}))
            else:
                if x.get("ret") != exp["ret"]:
                    problems.append("returned %s, the full length is %s" % (x.get("ret"), exp["ret"]))
                if B >= 0 and body is not None and x.get("copied") != body[:exp["copied"]]:
                    problems.append("copied bytes differ from the first min(L,B) bytes of the body")
                if B >= 0 and m.get("hexbody") and x.get("copied_hex") != m["hexbody"][:2 * exp["copied"]]:
                    problems.append("copied bytes (%s) differ from the first min(L,B) bytes of the body (%s)" % (x.get("copied_hex"), m["hexbody"][:2 * exp["copied"]]))
                if not x.get("tail_untouched", True):
                    problems.append("bytes beyond min(L,B) inside the buffer were modified")
                if not x.get("canary_ok", True):
                    problems.append("wrote outside the caller buffer (canary damaged)")
            for p in problems:
                v.violation(dict(check="cboundary-copy", L=L, B=B, what=p[:40]), "C17: pathrs_inroot_readlink, body length %d, buffer %s: %s" % (L, "NULL" if B < 0 else B, p), c)
            if len(samples) < 6 and B in (0, L - 1):
                samples.append(dict(case=c["id"], ret=x.get("ret"), copied=x.get("copied")))
        else:
            B = m["c"]["B"]
            if not x.get("ok"):
                v.violation(dict(check="cboundary-copy-proc", B=B), "C17: pathrs_proc_readlink(self, exe) failed: %s" % x.get("msg"), c)
                continue
            proc_len = proc_len or x["ret"]
            if x["ret"] != proc_len or not x.get("tail_untouched", True) or not x.get("canary_ok", True) or (B >= 0 and len(x.get("copied", "")) != min(proc_len, B)):
                v.violation(dict(check="cboundary-copy-proc", B=B), "C17: pathrs_proc_readlink copy contract broken for buffer %s: %s" % (B, json.dumps(x)[:200]), c)
    rc = v.finish()
    nontriv = len({(c["meta"]["c"].get("f"), c["meta"]["c"].get("cls"), c["meta"]["c"].get("val"), c["meta"]["c"].get("hi"), c["meta"]["c"].get("L"), c["meta"]["c"].get("B")) for c in cases})
    cov = dict(states=max(tlc["distinct"], 1), transitions=max(tlc["states"], 1), traces_validated_against_impl=stats["cases"], samples=samples, evaluations=len(cases), distinct_nontrivial=nontriv,
               rule="TLC enumerates ArgCases (function x class x value) and CopyCases (L x B incl. NULL); every case is executed; all are non-trivial (each is an invalid argument or a distinct (L,B) pair)",
               exhaustive=True, arg_cases=len(spec["args"]), copy_cases=len(spec["copy"]), build_s=round(build_s, 1))
    write_evidence("C17", tier_, "model_checking", cov, ASSUME, time.time() - t0, len(v.violations))
    return rc
