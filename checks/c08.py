"""C08: procfs lookups use bounded resources and report true errors on any /proc.
 (M) TLC: ProcRetry.tla (handle kinds x host /proc options x privilege x path kinds): HandlesBounded,
     MissingIsENOENT; the recursive variant (retry handle retries again) must violate HandlesBounded.
 (V) real: the shard's /proc is re-mounted with the option, the worker acts as root or as an
     unprivileged user (euid switch: no CAP_SYS_ADMIN, so no private procfs), every constructor x
     base x path kind is executed under the ptrace supervisor; handle creations, peak descriptors and
     syscall counts are taken from the raw trace and judged by TLC (TraceRetry.tla)."""
import json, time, random, collections
from lib.common import *
from lib.project import run_trace_tlc

ASSUME = ["'cannot create private procfs mounts' is realised by switching the effective uid to an unprivileged user (effective capabilities are cleared; fsopen/open_tree fail with EPERM)",
          "host /proc options are applied by mounting a new procfs instance with the option over /proc in the shard's private mount namespace",
          "bounds: <= 6 procfs root descriptors, <= 24 descriptors at once, <= 4000 syscalls per lookup"]
HOSTS = {"default": "", "hidepid1": "hidepid=1", "hidepid2": "hidepid=2", "ptraceable": "hidepid=4", "subsetpid": "subset=pid"}
PATHS = [("self", "status", "existing"), ("thread-self", "status", "existing"), ("self", "nonexistent-entry", "missing"), ("root", "nonexistent-entry", "missing"),
         ("self", "fd/999999", "missing"), ("root", "1/nonexistent", "missing"), ("root", "stat", "maskedpath"), ("root", "1/status", "maskedpath"), ("root", "mounts", "maskedpath")]


def main(tier_):
    t0 = time.time()
    v = Verdict("C08")
    build_s = build_harness()
    design = run_tlc("ProcRetry.tla", "MC_C08.cfg", workers=2, timeout=300)
    variant = run_tlc("ProcRetry.tla", "MC_C08_recursive.cfg", workers=2, timeout=300)
    # two more mechanism variants, both seeded changes: a handle that remembers a failed retry (C08c), and an "unmasked"
    # handle cloned from the host mount (C08d) -- each must violate VisibleToPrivilegedIsFound
    var_remember = run_tlc("ProcRetry.tla", "MC_C08_remember.cfg", workers=2, timeout=300)
    var_opentree = run_tlc("ProcRetry.tla", "MC_C08_opentree.cfg", workers=2, timeout=300)
    cases = []
    for hname, opts in HOSTS.items():
        for priv in (True, False):
            eu = {} if priv else {"euid": 1001}
            for ctor in ("new", "hostfd", "global-c"):
                for base, path, pk in PATHS:
                    for opn in (("proc_open", O["RDONLY"] | O["NONBLOCK"]), ("proc_open_follow", O["PATH"]), ("proc_readlink", 0)):
                        if ctor == "global-c":
                            cbase = {"self": 0x091D5E1F, "thread-self": 0x3EAD5E1F, "root": 0x5001FFFF}[base]
                            if opn[0] == "proc_open_follow":
                                call = dict(op="proc_open", api="c", cbase=cbase, path=path, oflags=opn[1], **eu)
                            elif opn[0] == "proc_open":
                                call = dict(op="proc_open", api="c", cbase=cbase, path=path, oflags=opn[1] | O["NOFOLLOW"], **eu)
                            else:
                                call = dict(op="proc_readlink", api="c", cbase=cbase, path=path, **eu)
                            calls = [call]
                        else:
                            first = dict(op="proc_new", **eu) if ctor == "new" else dict(op="proc_from_fd", how="open", **eu)
                            calls = [first, dict(op=opn[0], base=base, path=path, oflags=opn[1], **eu)]
                        cases.append(dict(id="c08|%s|%s|%s|%s|%s|%s" % (hname, "root" if priv else "unpriv", ctor, base, path, opn[0]), tree=[], feat={"openat2": True}, trace=True, raw=True,
                                          cold=True, procmount=opts if hname != "default" else None, timeout=60, calls=calls,
                                          meta=dict(host=hname, priv=priv, ctor=ctor, base=base, path=path, pathkind=pk, op=opn[0])))
                        if priv and hname in ("subsetpid", "hidepid2") and ctor != "hostfd":
                            # a privileged caller that cannot create NEW procfs instances (fsopen/fsmount refused): its private handles
                            # are open_tree clones of the host mount (every clone is a new mount, as masked as the host), or -- without
                            # the new mount API altogether -- the host mount itself
                            for fname, feat in (("nofsopen", {"openat2": True, "fsopen": False}), ("oldmount", {"openat2": False, "newmount": False})):
                                cases.append(dict(id="c08f|%s|%s|%s|%s|%s|%s" % (hname, fname, ctor, base, path, opn[0]), tree=[], feat=feat, trace=True, raw=True,
                                                  cold=True, procmount=opts, timeout=60, calls=calls,
                                                  meta=dict(host=hname, priv=priv, ctor=ctor, base=base, path=path, pathkind=pk, op=opn[0], nofsopen=fname)))
                        if pk != "missing":
                            # history: the same lookup after a lookup of a missing entry on the same handle -- the model's
                            # outcome is a function of (handle, host, privilege, path) only, so an earlier ENOENT must not matter
                            miss = dict(calls[-1], path="nonexistent-entry")
                            cases.append(dict(id="c08h|%s|%s|%s|%s|%s|%s" % (hname, "root" if priv else "unpriv", ctor, base, path, opn[0]), tree=[], feat={"openat2": True}, trace=True, raw=True,
                                              cold=True, procmount=opts if hname != "default" else None, timeout=60, calls=calls[:-1] + [miss, calls[-1]],
                                              meta=dict(host=hname, priv=priv, ctor=ctor, base=base, path=path, pathkind=pk, op=opn[0], history="after-missing")))
    if tier_ == "quick":
        rnd = random.Random(seed())
        # the unprivileged / masked combinations are where the retry logic lives: keep all of those, sample the rest
        nof = [c for c in cases if c["meta"].get("nofsopen")]
        cases = [c for c in cases if not c["meta"].get("nofsopen")]
        hot = [c for c in cases if not c["meta"]["priv"] or c["meta"]["host"] == "subsetpid"]
        rest = [c for c in cases if c not in hot]
        rnd.shuffle(hot)
        rnd.shuffle(rest)
        hist = [c for c in hot + rest if c["meta"].get("history")]
        hot = [c for c in hot if not c["meta"].get("history")]
        rest = [c for c in rest if not c["meta"].get("history")]
        rnd.shuffle(nof)
        cases = hot[:260] + rest[:80] + hist[:200] + [c for c in nof if c["meta"]["pathkind"] == "missing"][:60] + [c for c in nof if c["meta"]["pathkind"] != "missing"][:40]
    for c in cases:
        if c.get("procmount") is None:
            c.pop("procmount")
    res = run_pv(cases, jobs=10, tag="C08")
    recs = []
    stats = collections.Counter()
    for c, r in zip(cases, res):
        m = c["meta"]
        j = len(c["calls"]) - 1
        evs = [e for e in r.get("events", []) if e.get("ev") == "sys" and e.get("call") == j]
        handles = sum(1 for e in evs if e.get("ret", -1) >= 0 and (e["nr"] in ("fsmount", "open_tree") or (e["nr"] == "openat" and e.get("path") == "/proc")))
        cur = peak = 0
        for e in evs:
            if e.get("ret", -1) >= 0 and (e["nr"] in ("openat", "openat2", "fsopen", "fsmount", "open_tree", "dup", "dup3") or (e["nr"] == "fcntl" and e.get("cmd") in (0, 1030))):
                cur += 1
                peak = max(peak, cur)
            elif e["nr"] == "close" and e.get("ret") == 0:
                cur -= 1
        status = r.get("status")
        outcome = "err"
        rs = (r.get("out") or [{}])[0].get("results") or []
        if status != "ok":
            outcome = "hang" if "hang" in json.dumps(status) else "panic"
        elif j < len(rs):
            x = rs[j]
            if x.get("skip"):
                stats["skipped"] += 1
                continue
            o = lib_outcome(x)
            outcome = "ok" if o[0] in ("ok", "body") else ("panic" if o[0] == "panic" else str(o[1]))
        pk = m["pathkind"]
        # what "exists" means for this caller: entries of other processes are legitimately hidden by hidepid for an unprivileged caller
        if pk == "maskedpath":
            hidden_for_caller = (not m["priv"] and m["host"] in ("hidepid1", "hidepid2", "ptraceable") and m["path"].startswith("1/")) or (m["host"] == "subsetpid" and (not m["priv"] or m["ctor"] == "hostfd" or m.get("nofsopen")))
            pk = "other" if hidden_for_caller else "existing"
        if m["op"] == "proc_readlink" and pk == "existing" and m["path"] != "mounts":
            pk = "other"     # readlink of a non-link legitimately reports ENOENT
        recs.append(dict(case=c["id"], handles=handles, peak=peak, nsys=len(evs), outcome=outcome, pathkind=pk))
        stats["outcome_" + outcome] += 1
    tr = run_trace_tlc("TraceRetry.tla", "TraceFS.cfg", recs)
    if not tr["accepted"] or tr["report"] is None:
        raise ToolError("TraceRetry validation failed: %s" % tr["tlc"]["out"][-1500:])
    by = {c["id"]: c for c in cases}
    for b in tr["report"]["bad"]:
        c = by.get(b["case"], {})
        m = c.get("meta", {})
        v.violation(dict(check="proc-retry", what=b["what"], host=m.get("host"), priv=m.get("priv"), ctor=m.get("ctor"), op=m.get("op"), path=m.get("path"), history=m.get("history")),
                    ("C08: %s -- %s(%s, %r)%s via %s on /proc[%s] as %s" + (" without fsopen [%s]" % m.get("nofsopen") if m.get("nofsopen") else "") + ": outcome %s, %d procfs handles, peak %d descriptors, %d syscalls") % (
                        b["what"], m.get("op"), m.get("base"), m.get("path"), " after a lookup of a missing entry on the same handle" if m.get("history") else "", m.get("ctor"), m.get("host"), "root" if m.get("priv") else "unprivileged", b["outcome"], b["handles"], b["peak"], b["nsys"]), c)
    rc = v.finish()
    samples = [r for r in recs if r["handles"] > 1][:3] + recs[:2]
    cov = dict(states=design["distinct"] + tr["tlc"]["distinct"], transitions=design["states"] + len(recs), traces_validated_against_impl=len(recs), samples=samples, evaluations=len(cases),
               distinct_nontrivial=len([c for c in cases if not c["meta"]["priv"] or c["meta"]["host"] != "default"]),
               rule="case = (host /proc option, privilege, constructor, base, path kind, operation), traced; non-trivial = unprivileged caller or non-default /proc options",
               exhaustive=tier_ != "quick", design_violated=design["violated"], recursive_variant_violated=variant["violated"], remember_enoent_variant_violated=var_remember["violated"], unmasked_via_open_tree_variant_violated=var_opentree["violated"], skipped=stats["skipped"],
               outcomes={k: n for k, n in stats.items() if k.startswith("outcome_")}, max_handles=max([r["handles"] for r in recs] or [0]), max_peak=max([r["peak"] for r in recs] or [0]),
               max_nsys=max([r["nsys"] for r in recs] or [0]), build_s=round(build_s, 1))
    write_evidence("C08", tier_, "model_checking", cov, ASSUME, time.time() - t0, len(v.violations))
    return rc
