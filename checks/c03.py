"""C03: mutating Root operations never touch anything outside the root.
 (M) TLC: RootOps.tla invariants OutsideFrame / ResultInside over every path spelling (static).
 (V) every mutating operation is executed under the ptrace supervisor (a) for every dot-name /
     escaping spelling TLC generated and (b) with every attacker action of the repertoire placed
     before every relevant syscall; TLC (TraceFS.tla) replays all logged mutations, recomputes
     everIn and judges each library mutation / open / returned descriptor."""
import json, time, random, collections
from lib.common import *
from lib.project import *
from checks import race, rootops_static

ASSUME = ["attacker never moves the root's own dentry or its ancestors", "a single openat2 is atomic-or-EAGAIN (kernel backend)",
          "sweep places attacker actions before every tree-relevant syscall; quick tier samples non-priority placements",
          "C03 is judged on library syscalls that mutate or really open (non-O_PATH) an entry, and on descriptors handed back by create_file/mkdir_all"]

MUT_CALLS = {
    "chain": [dict(op="create", path="a/b/c/new", kind="file", mode=0o644), dict(op="create", path="a/b/../b/c/nd", kind="dir", mode=0o755),
              dict(op="create", path="a/b/c/nl", kind="lnk", target="../../e"), dict(op="create", path="a/b/hl", kind="hard", target="a/b/c/f"),
              dict(op="create_file", path="a/b/c/newf", oflags=O["RDWR"], mode=0o600), dict(op="mkdir_all", path="a/b/c/x/y", mode=0o755),
              dict(op="mkdir_all", path="a/new/x", mode=0o755), dict(op="remove_file", path="a/b/c/f"), dict(op="remove_dir", path="a/b/c"),
              # a missing component followed by "..": the attacker creates it between two attempts of the partial lookup
              # down, then ".." twice without lexically reaching the root, then a missing component (an in-root rename that
              # makes the walked directory shallower turns the ".." steps into an escape); with and without NO_SYMLINKS
              dict(op="mkdir_all", path="a/b/c/../../x/escaped", mode=0o755), dict(op="mkdir_all", path="a/b/c/../../x/escaped", mode=0o755, nosym=True),
              dict(op="create", path="a/b/c/../../newf", kind="file", mode=0o644, nosym=True),
              dict(op="mkdir_all", path="nx/../../pwned", mode=0o755), dict(op="mkdir_all", path="a/nx/../../../pwned", mode=0o755), dict(op="mkdir_all", path="a/b/nx/../../../../out/pw", mode=0o755),
              dict(op="remove_all", path="a/b"), dict(op="rename", src="a/b/c/f", dst="e/g", flags=0), dict(op="rename", src="a/b", dst="e/b2", flags=0)],
    "links": [dict(op="create", path="la/c/new", kind="file", mode=0o644), dict(op="create_file", path="ldd/newf", oflags=O["RDWR"], mode=0o600),
              dict(op="mkdir_all", path="la/c/x/y", mode=0o755), dict(op="mkdir_all", path="a/b/up/e/z", mode=0o755), dict(op="remove_file", path="ldd/f"),
              dict(op="remove_all", path="la/c"), dict(op="rename", src="la/c/f", dst="a/b/up/e/g", flags=0)],
}


R = race.R


def main(tier_):
    t0 = time.time()
    quick = tier_ == "quick"
    rnd = random.Random(seed())
    verdicts = collections.defaultdict(lambda: Verdict("X"))
    v = verdicts["C03"] = Verdict("C03")
    build_s = build_harness()
    stats, samples = collections.Counter(), []
    # ---- (M) design invariants over all spellings
    design = run_tlc("MC_RootOps.tla", "MC_C14_%s.cfg" % tier_, workers=8, timeout=1800)
    # ---- (M) mkdir_all with an attacker (Mkdir2.tla): the known finding F-C03-mkdir-all-below-new-dir is a property of the
    #      design (TLC: MutationsInside violated after one attacker rename), not of one backend
    mk2 = run_tlc("MC_Mkdir2.tla", "MC_Mkdir2_attack.cfg", workers=8, timeout=600)
    # ... and the ".." refusal in the not-yet-existing tail: with an attacker who creates the component the partial
    # lookup found missing, mkdir_all("a/nx/../../../pwned") stays inside only because of it (removed: MutationsInside fails)
    dd_on = run_tlc("MC_Mkdir2.tla", "MC_Mkdir2_dotdot.cfg", workers=4, timeout=600)
    dd_off = run_tlc("MC_Mkdir2.tla", "MC_Mkdir2_dotdot_removed.cfg", workers=4, timeout=600)
    # ---- static: the spellings whose final name is a dot name or that go through escaping links, traced
    gen = run_tlc("MC_RootOps.tla", "MC_C14_%s_gen.cfg" % tier_, workers=8, timeout=3000)
    trees, gcases = {}, []
    for tag, body in gen["prints"]:
        if tag == "TREES":
            for t in body:
                trees[t["name"]] = t
        elif tag == "CASE":
            gcases.append(body)
    dot = [c for c in gcases if c["split"]["name"] in (".", "..") or c["split2"]["name"] in (".", "..") or not c["frame"] or not c["inside"]
           or "esc" in c["path"] or "esc" in c["path2"]]
    rnd.shuffle(dot)
    if quick:
        dot = dot[:600]
    static_cases = []
    for ci, c in enumerate(dot):
        nodes = []
        for n in trees[c["tree"]]["nodes"]:
            nodes.append(dict(id=1000 + len(nodes), p=n["p"], n=n["n"], k="hard", b=str(n["id"])) if n["k"] == "hard" else node_to_pv(n))
        lc = dict(rootops_static.lib_call(c), api="c" if ci % 2 else "rust")      # both API surfaces (the C ABI works on borrowed roots: RootRef)
        for bname, feat in rootops_static.FEATS:
            static_cases.append(dict(id="static|%d|%s" % (ci, bname), tree=nodes, feat=feat, trace=True, raw=False, calls=[lc],
                                     meta=dict(tree=c["tree"], call=lc, acts=[], ks=[], static=True)))
    # plus remove_all / mkdir_all with dot names (not in RootOps' single-entry op set)
    from checks.scenarios import OPS_TREE
    for path in ("..", ".", "a/..", "a/sub/..", "a/.", "la/..", "a/esc/..", "d_full/y/../..", "../..", "a/esc"):
        for op in ("remove_all", "mkdir_all", "remove_dir", "remove_file"):
            for bname, feat in rootops_static.FEATS:
                for api in ("rust", "c"):
                    call = dict(op=op, path=path, mode=0o755, api=api) if op == "mkdir_all" else dict(op=op, path=path, api=api)
                    static_cases.append(dict(id="static-dot|%s|%s|%s|%s" % (op, path, bname, api), tree=OPS_TREE, feat=feat, trace=True, raw=False, calls=[call],
                                             meta=dict(tree="ops", call=call, acts=[], ks=[], static=True)))
    # ---- attacker sweeps
    bl_cases, bl_index = [], []
    for tname, nodes in race.RACE_TREES.items():
        for call in MUT_CALLS[tname]:
            for bname, feat in (("emulated", {"openat2": False}), ("kernel", {"openat2": True})):
                bl_cases.append(dict(id="base-%d" % len(bl_cases), tree=nodes, feat=feat, trace=True, raw=False, calls=[call]))
                bl_index.append((tname, nodes, call, bname, feat))
    order = sorted(range(len(bl_cases)), key=lambda i: json.dumps(bl_cases[i]["feat"]))
    bl_res = run_pv([bl_cases[i] for i in order], jobs=12, tag="C03b")
    sweep = []
    for i, br in zip(order, bl_res):
        tname, nodes, call, bname, feat = bl_index[i]
        ks = [e.get("k", -1) for e in br.get("events", []) if e.get("ev") == "sys" and e.get("rel")]
        n_rel = max(ks) + 1 if ks else 0
        focus = set()
        for e in br.get("events", []):
            if e.get("ev") == "sys" and e.get("rel"):
                focus.add(e.get("dfd_id"))
                if e.get("r_id"):
                    focus.add(e.get("r_id"))
        acts = race.repertoire(nodes, focus=focus)
        # entries the call itself creates: swap the fresh entry with a staged escaping symlink / directory
        # (it does not exist before the creating syscall, so only later placements take effect)
        for e in br.get("events", []):
            if e.get("ev") == "sys" and e.get("nr") in ("mkdirat", "mknodat", "symlinkat") and e.get("ret") == 0 and e.get("dfd_class") == "tree" and e.get("dfd_id", 0) and e.get("dfd_id") <= 30:
                for (sp, sn) in ((20, "l_out"), (20, "d"), (20, "l_abs")):
                    acts.append(dict(act="exchange", sp=e["dfd_id"], sn=e["path"], dp=sp, dn=sn, prio=1))
        # a component the lookup finds missing appears (the attacker creates it inside the root)
        comps = (call.get("path") or "").split("/")
        if call["op"] == "mkdir_all" and "nx" in comps:
            par = R
            for cpt in comps[:comps.index("nx")]:
                par = next((n["id"] for n in nodes if n["p"] == par and n["n"] == cpt), par)
            acts.append(dict(act="mkdir", p=par, n="nx", prio=1))
        # growing a moved-out directory: the attacker also creates the next component outside
        sweep += race.make_sweep(tname, nodes, call, feat, n_rel, acts, pairs=False)
        if call["op"] == "mkdir_all":
            for a in [x for x in acts if x["act"] == "rename" and x["dp"] == race.OUT][:3]:
                moved = next((n for n in nodes if n["p"] == a["sp"] and n["n"] == a["sn"]), None)
                if moved is None:
                    continue
                grow = dict(act="mkdir", p=moved["id"], n="new")
                for k in range(n_rel + 1):
                    sweep.append(dict(id="%s|%s|%s|grow|%s@%d" % (tname, call["op"], call.get("path"), a["sn"], k), tree=nodes, feat=feat, trace=True, raw=False, calls=[call],
                                      sched=[dict(call=0, k=k, acts=[a, grow])], meta=dict(tree=tname, call=call, acts=[a, grow], ks=[k], prio=1)))
    stats["sweep_space"] = len(sweep)
    if quick:
        prio = [c for c in sweep if c["meta"].get("prio")]
        pid_ = {c["id"] for c in prio}
        rest = [c for c in sweep if c["id"] not in pid_]
        rnd.shuffle(prio)
        rnd.shuffle(rest)
        sweep = prio[:4000] + rest[:500]
    cases = static_cases + sweep
    cases.sort(key=lambda c: json.dumps(c["feat"]))
    results = run_pv(cases, jobs=12, tag="C03")
    race.outcome_stats(results, stats)
    race.judge(("C03",), cases, results, verdicts, stats, samples)
    rc = v.finish()
    wall = time.time() - t0
    cov = dict(states=max(gen["distinct"], 1) + stats["trace_states"], transitions=max(gen["states"], 1) + stats["events"], traces_validated_against_impl=stats["traces"], samples=samples,
               evaluations=len(cases), distinct_nontrivial=stats["attack_fired"] + len(static_cases),
               rule="case = static dot-name/escaping spelling (TLC-generated) or (race tree, mutating call, backend, attacker action(s), boundary); non-trivial = attacker mutation took effect, or the spelling ends in '.'/'..' / goes through an escaping link",
               exhaustive=False, design_invariant_violated=design["violated"], mkdir_all_dotdot_tail_model=dict(with_refusal=dd_on["violated"], states=dd_on["distinct"], complete=dd_on["complete"], refusal_removed=dd_off["violated"]),
               mkdir_all_with_attacker_model=dict(violated=mk2["violated"], states=mk2["distinct"], note="expected: MutationsInside (known finding F-C03-mkdir-all-below-new-dir at design level)"), static_cases=len(static_cases), sweep_space=stats["sweep_space"], sweep_executed=len(sweep),
               attack_fired=stats["attack_fired"], kernel_model_mismatches=stats["kmm"], kmm_samples=stats.get("kmm_samples", [])[:3],
               outcomes={k: n for k, n in stats.items() if k.startswith("outcome_")}, abnormal=stats["abnormal"], build_s=round(build_s, 1))
    write_evidence("C03", tier_, "model_checking", cov, ASSUME, wall, len(v.violations))
    return rc
