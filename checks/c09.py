"""C09: reopen yields the same inode for any descriptor number and /proc state.
TLC (Reopen.tla) enumerates inode kind x access mode x extra flag x descriptor number x history
of rename/replace/unlink between resolve and reopen, with the expected outcome; every case is
executed through Handle::reopen (Rust) and pathrs_reopen (C), on both feature sets."""
import json, time, random, collections
from lib.common import *

ASSUME = ["descriptor numbers are forced with dup3 (0 with stdin closed, 1, 100); 999 = the number the library returned",
          "histories are applied by the caller with plain rename/unlink/create between resolve and reopen (static, no concurrent attacker: the attacker case is C02/C11)",
          "host-/proc over-mounts are exercised by the C06 machinery (same procfs handle code path: thread-self/fd/N through ProcfsHandle::open_follow)"]
TREE = [dict(id=5, p=2, n="d", k="dir"), dict(id=6, p=5, n="t_file", k="file"), dict(id=7, p=5, n="t_dir", k="dir"), dict(id=8, p=5, n="t_fifo", k="fifo"),
        dict(id=9, p=5, n="t_lnk", k="lnk", b="t_file"), dict(id=10, p=7, n="inner", k="file")]
EXTRA = {"": 0, "DIRECTORY": O["DIRECTORY"], "APPEND": O["APPEND"], "NOFOLLOW": O["NOFOLLOW"], "TRUNC": O["TRUNC"], "CREAT": O["CREAT"], "EXCL": O["EXCL"],
         "CREAT|EXCL": O["CREAT"] | O["EXCL"], "TMPFILE": O["TMPFILE"], "NOATIME": O["NOATIME"], "SYNC": O["SYNC"]}
ACC = {"RDONLY": O["RDONLY"], "WRONLY": O["WRONLY"], "RDWR": O["RDWR"], "PATH": O["PATH"]}
MASK = O["WRONLY"] | O["RDWR"] | O["APPEND"] | O["NONBLOCK"] | O["DIRECT"] | O["SYNC"] | O["NOATIME"] | O["DIRECTORY"] | O["PATH"]


def history_calls(kind, hist):
    name = "root/d/t_" + kind
    calls = []
    cur = name
    for h in hist.split("+"):
        if h == "rename":
            calls.append(dict(op="raw", act="rename", a=cur, b="root/d/moved"))
            cur = "root/d/moved"
        elif h == "unlink":
            if kind == "dir":
                calls.append(dict(op="raw", act="unlink", a=cur + "/inner"))
                calls.append(dict(op="raw", act="rmdir", a=cur))
            else:
                calls.append(dict(op="raw", act="unlink", a=cur))
        elif h == "replace":
            # something else now has the handle's original name
            if cur == name:
                calls.append(dict(op="raw", act="rename", a=cur, b="root/d/old"))
            calls.append(dict(op="raw", act="mkfile", a=name))
    return calls


def thread_race_cases():
    from checks import scenarios
    out = []
    for kind in ("file", "dir"):
        for api in ("rust", "c"):
            for fname, feat in scenarios.FEATS:
                fl = ACC["RDONLY"] | O["NONBLOCK"]
                out.append(dict(id="threadrace|%s|%s|%s" % (kind, api, fname), tree=TREE, feat=feat, trace=False, raw=True, cold=True,
                                calls=[dict(op="reopen_threads", path="d/t_" + kind, oflags=fl, api=api, threads=6)],
                                meta=dict(g=dict(kind=kind, acc="RDONLY", extra="", num=999, hist="concurrent first use by 6 threads", expect=dict(ok=True, ino=1)),
                                          api=api, backend=fname, oflags=fl, race=True, threads=6, scenario="reopen-threads-" + api, feat=fname)))
    return out


def main(tier_):
    t0 = time.time()
    quick = tier_ == "quick"
    rnd = random.Random(seed())
    v = Verdict("C09")
    build_s = build_harness()
    tlc = run_tlc("Reopen.tla", "MC_C09.cfg", workers=4, timeout=600)
    gcases = [b for t, b in tlc["prints"] if t == "CASE"]
    if not tlc["complete"] or not gcases:
        raise ToolError("TLC did not enumerate Reopen: %s" % tlc["out"][-1000:])
    total = len(gcases)
    if quick:
        rnd.shuffle(gcases)
        gcases = gcases[:700]
    cases = []
    for gi, g in enumerate(gcases):
        kind = g["kind"]
        fl = ACC[g["acc"]] | EXTRA[g["extra"]] | (O["NONBLOCK"] if kind == "fifo" or g["acc"] != "PATH" else 0)
        for api in ("rust", "c"):
            for bname, feat in (("kernel", {"openat2": True}), ("emulated", {"openat2": False})):
                if quick and rnd.random() < 0.5:
                    continue
                calls = [dict(op="resolve", path="d/t_" + kind, nofollow=True, api=api)] + history_calls(kind, g["hist"])
                ro = dict(op="reopen", of=0, oflags=fl, api=api)
                if g["num"] != 999:
                    ro["dupto"] = g["num"]
                calls.append(ro)
                cases.append(dict(id="reopen|%d|%s|%s" % (gi, api, bname), tree=TREE, feat=feat, trace=False, calls=calls, close0=(g["num"] == 0),
                                  meta=dict(g=g, api=api, backend=bname, oflags=fl)))
    # a thread with a private descriptor table (unshare(CLONE_FILES)) while the leader holds decoys
    # at the same descriptor numbers: the handle is the *calling thread's* descriptor
    for kind in ("file", "dir"):
        for acc in ("RDONLY", "PATH") + (("RDWR",) if kind == "file" else ()):
            for bname, feat in (("kernel", {"openat2": True}), ("emulated", {"openat2": False})):
                fl = ACC[acc] | (O["NONBLOCK"] if acc != "PATH" else 0)
                cases.append(dict(id="thread|%s|%s|%s" % (kind, acc, bname), tree=TREE + [dict(id=20, p=2, n="decoy", k="file")], feat=feat, trace=False, cold=True,
                                  calls=[dict(op="reopen_in_thread", path="d/t_" + kind, decoy="root/decoy", oflags=fl)],
                                  meta=dict(g=dict(kind=kind, acc=acc, extra="", num=999, hist="thread-private-fd-table", expect=dict(ok=True, ino=1)), api="rust", backend=bname, oflags=fl, thread=True)))
    # the host's /proc over-mounted as a whole (empty tmpfs): no effect for callers that get a private procfs (new mount
    # API available), and at worst an error -- never another object, never a panic -- for the others
    from checks import scenarios
    for kind in ("file", "dir"):
        for acc in ("RDONLY", "PATH"):
            for fname, feat in scenarios.FEATS:
                fl = ACC[acc] | (O["NONBLOCK"] if acc != "PATH" else 0)
                private = fname in ("kernel", "emulated")
                cases.append(dict(id="procmount|%s|%s|%s" % (kind, acc, fname), tree=TREE, feat=feat, trace=False, cold=True, mounts=[dict(target="/proc", kind="tmpfs", src="")],
                                  calls=[dict(op="resolve", path="d/t_" + kind, nofollow=True, api="rust"), dict(op="reopen", of=0, oflags=fl, api="rust")],
                                  meta=dict(g=dict(kind=kind, acc=acc, extra="", num=999, hist="host /proc over-mounted by an empty tmpfs", expect=dict(ok=True, ino=1)), api="rust", backend=fname, oflags=fl,
                                            may_fail=not private)))
    # a fake host /proc with "self" but without "thread-self", and a thread with a private descriptor table: the base the
    # library picks must be chosen inside the procfs instance it then uses
    for kind in ("file", "dir"):
        for fname, feat in scenarios.FEATS[:2]:
            fl = ACC["RDONLY"] | O["NONBLOCK"]
            cases.append(dict(id="procmount-thread|%s|%s" % (kind, fname), tree=TREE + [dict(id=20, p=2, n="decoy", k="file")], feat=feat, trace=False, cold=True,
                              mounts=[dict(target="/proc", kind="tmpfs-selfonly", src="")],
                              calls=[dict(op="reopen_in_thread", path="d/t_" + kind, decoy="root/decoy", oflags=fl)],
                              meta=dict(g=dict(kind=kind, acc="RDONLY", extra="", num=999, hist="thread-private-fd-table, host /proc replaced by a tmpfs with only 'self'", expect=dict(ok=True, ino=1)),
                                        api="rust", backend=fname, oflags=fl, thread=True)))
    # concurrent first use: K threads of a process that has not touched the global procfs handle yet reopen one handle at once
    for c in thread_race_cases():
        cases.append(c)
    # the O_NOCTTY half of "plus O_CLOEXEC|O_NOCTTY": a session leader without controlling terminal reopens a pty slave
    for api in ("rust", "c"):
        for fname, feat in scenarios.FEATS[:2]:
            cases.append(dict(id="tty|%s|%s" % (api, fname), tree=TREE, feat=feat, trace=False, calls=[dict(op="reopen_tty", api=api, oflags=O["RDWR"])],
                              meta=dict(g=dict(kind="tty", acc="RDWR", extra="", num=999, hist="session leader without controlling terminal", expect=dict(ok=True, ino=1)), api=api, backend=fname, oflags=O["RDWR"], tty=True)))
    # ... and a failing call in that environment is an ordinary error (the error paths pretty-print descriptors through /proc)
    for fname, feat in scenarios.FEATS:
        cases.append(dict(id="procmount|missing|%s" % fname, tree=TREE, feat=feat, trace=False, cold=True, mounts=[dict(target="/proc", kind="tmpfs", src="")],
                          calls=[dict(op="resolve", path="d/t_file", nofollow=True, api="rust"), dict(op="resolve", path="d/nonexistent", api="rust")],
                          meta=dict(g=dict(kind="file", acc="PATH", extra="", num=999, hist="host /proc over-mounted by an empty tmpfs; lookup of a missing entry", expect=dict(ok=False, err="ENOENT")),
                                    api="rust", backend=fname, oflags=0, may_fail=False)))
    cases.sort(key=lambda c: json.dumps(c["feat"]))
    res = run_pv(cases, jobs=12, tag="C09")
    res, _ = rerun_noisy(cases, res, tag="C09r")
    stats = collections.Counter()
    samples = []
    for c, r in zip(cases, res):
        g = c["meta"]["g"]
        if r.get("status") != "ok" or not r.get("out") or "results" not in r["out"][0]:
            v.violation(dict(check="reopen", what="abnormal", case=c["id"]), "C09: abnormal termination %s %s" % (c["id"], r.get("status")), c)
            continue
        rs = r["out"][0]["results"]
        h, x = rs[0], rs[-1]
        if c["meta"].get("tty"):
            if x.get("skip"):
                stats["skipped"] += 1
            elif not x.get("ok"):
                v.violation(dict(check="reopen-tty", what="failed", api=c["meta"]["api"]), "C09: reopen(O_RDWR) of a pty slave failed: %s" % json.dumps(x)[:200], c)
            else:
                stats["cases"] += 1
                if x.get("ctty"):
                    v.violation(dict(check="reopen-tty", what="controlling terminal acquired", api=c["meta"]["api"]),
                                "C09: reopen(O_RDWR) of a pty slave by a session leader without controlling terminal made it the controlling terminal [%s API, %s]: the reopen lacks O_NOCTTY" % (c["meta"]["api"], c["meta"]["backend"]), c)
            continue
        if c["meta"].get("race"):
            stats["cases"] += 1
            outs = x.get("threads") or []
            h = x.get("handle") or {}
            if len(outs) != c["meta"]["threads"] or not h.get("ok"):
                v.violation(dict(check="reopen-threads", what="abnormal"), "C09: concurrent first-use case did not run: %s" % json.dumps(x)[:300], c)
            for t, o in enumerate(outs):
                p = None
                if o.get("panic"):
                    p = "panicked"
                elif not o.get("ok"):
                    p = "failed with %s" % (lib_outcome(o),)
                elif (o.get("rawdev"), o.get("rawino")) != (h.get("rawdev"), h.get("rawino")):
                    p = "returned inode %s, the handle refers to inode %s" % (o.get("rawino"), h.get("rawino"))
                elif not o.get("cloexec"):
                    p = "not close-on-exec"
                if p:
                    v.violation(dict(check="reopen-threads", what=p.split(",")[0][:40], api=c["meta"]["api"], backend=c["meta"]["backend"]),
                                "C09: %d threads reopen one %s handle at the same moment as the process's first use of the library's procfs handle [%s API, %s]: thread %d %s" % (
                                    c["meta"]["threads"], g["kind"], c["meta"]["api"], c["meta"]["backend"], t, p), c)
            continue
        if c["meta"].get("thread"):
            h = x.get("handle") or {}
            h.setdefault("ok", bool(h.get("id")))
        if not h.get("ok") or x.get("skip"):
            stats["skipped"] += 1
            continue
        stats["cases"] += 1
        exp = model_outcome(g["expect"])
        got = lib_outcome(x)
        if got[0] == "err" and got[1] == "EINVAL" and "capi_id" in x and exp == ("err", "InvalidArgument"):
            got = ("err", "InvalidArgument")
        problems = []
        if exp[0] == "ok" and got[0] == "err" and c["meta"].get("may_fail"):
            stats["hostproc_error_" + str(got[1])] += 1      # a host-visible handle may only fail
        elif exp[0] == "ok":
            if got[0] != "ok":
                problems.append("failed with %s, expected a new description of the handle's inode" % (got,))
            else:
                if x.get("id") != h.get("id") or x.get("id") in (0, None):
                    problems.append("returned inode %s, the handle refers to inode %s" % (x.get("id"), h.get("id")))
                want = c["meta"]["oflags"] & MASK
                if want & O["PATH"]:
                    want &= O["PATH"] | O["DIRECTORY"]     # under O_PATH the kernel keeps only O_DIRECTORY (|O_NOFOLLOW|O_CLOEXEC)
                if (x.get("fl", 0) & MASK) != want:
                    problems.append("F_GETFL %#o, requested %#o" % (x.get("fl", 0) & MASK, want))
                if not x.get("cloexec"):
                    problems.append("not close-on-exec")
        else:
            if got[0] == "ok":
                problems.append("succeeded, expected %s" % exp[1])
            elif got[1] != exp[1]:
                problems.append("failed with %s, expected %s" % (got[1], exp[1]))
        if not x.get("handle_still_open", True):
            problems.append("the handle was closed")
        for p in problems:
            sig = dict(check="reopen", kind=g["kind"], acc=g["acc"], extra=g["extra"], num=g["num"], what=p.split(",")[0][:50], api=c["meta"]["api"])
            v.violation(sig, "C09: reopen(%s handle, %s%s) as descriptor %s after history '%s' [%s API, %s]: %s" % (
                g["kind"], g["acc"], "|" + g["extra"] if g["extra"] else "", "as returned" if g["num"] == 999 else g["num"], g["hist"], c["meta"]["api"], c["meta"]["backend"], p), c)
        if len(samples) < 4 and g["hist"] != "none" and got[0] == "ok":
            samples.append(dict(case=g, api=c["meta"]["api"], handle_inode=h.get("id"), reopened_inode=x.get("id"), fl=x.get("fl")))
    rc = v.finish()
    cov = dict(states=tlc["distinct"], transitions=tlc["states"], traces_validated_against_impl=stats["cases"], samples=samples or [dict(note="none")], evaluations=len(cases),
               distinct_nontrivial=len({json.dumps(c["meta"]["g"], sort_keys=True) for c in cases if c["meta"]["g"]["hist"] != "none" or c["meta"]["g"]["num"] != 999}),
               rule="case = (inode kind, access mode, extra flag, descriptor number, history) from TLC x API x feature set; non-trivial = a history was applied or the descriptor number was forced",
               exhaustive=not quick, generated=total, skipped=stats["skipped"], host_proc_overmount={k: n for k, n in stats.items() if k.startswith("hostproc_")}, build_s=round(build_s, 1))
    write_evidence("C09", tier_, "model_checking", cov, ASSUME, time.time() - t0, len(v.violations))
    return rc
