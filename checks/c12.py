from lib.common import *
from checks import mkrm


def main(tier_):
    rc, cov, wall, v = mkrm.run("C12", tier_)
    write_evidence("C12", tier_, "model_checking", cov, mkrm.ASSUME, wall, len(v.violations))
    return rc
