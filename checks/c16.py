"""C16: C error ids are unique, consumed exactly once, and never look like an errno.
 (M) TLC: ErrTable.tla (3 threads, 4 failures, id space of 3 so that collisions are frequent),
     invariants IdBelowErrnoRange / LiveIdsDistinct / ConsumeReturnsThatFailure; the variant
     without the retry-on-Occupied mechanism must violate LiveIdsDistinct.
 (V) real histories: 2-6 threads issue failing calls of several error kinds and consume ids on
     other threads; TLC (TraceErr.tla) searches a linearization against the table model;
     'birthday' runs keep 3*10^5..10^6 ids outstanding so that the retry branch really executes."""
import json, time, random, collections
from lib.common import *
from lib.project import run_trace_tlc

ASSUME = ["call/return intervals are stamped from one atomic counter inside the worker (sequentially consistent)",
          "id collisions in the 2^31 id space are provoked by keeping N ids outstanding (expected colliding pairs N^2/2^32: 21 for N=3*10^5) instead of a source hook",
          "description identity is checked through a unique tag embedded in the failing path where the error message carries the path; errno for the other kinds"]


def history_events(case_id, hist):
    evs = [dict(ev="reset", case=case_id, t=0, op="", id=0, tag=0, got=0, errno=0, want_errno=0, second_null=True, n=0, dups=0, max=0, first_ok=0, second_non_null=0)]
    pts = []
    for h in hist:
        base = dict(case=case_id, t=h["t"], op=h["ev"], id=h["id"], tag=h["tag"], got=h.get("got", 0), errno=h.get("errno", 0), want_errno=h.get("want_errno", 0),
                    second_null=bool(h.get("second_null", True)), n=0, dups=0, max=0, first_ok=0, second_non_null=0)
        pts.append((h["start"], dict(base, ev="start")))
        pts.append((h["end"], dict(base, ev="end")))
    pts.sort(key=lambda x: x[0])
    return evs + [p[1] for p in pts]


def main(tier_):
    t0 = time.time()
    quick = tier_ == "quick"
    rnd = random.Random(seed())
    v = Verdict("C16")
    build_s = build_harness()
    base = run_tlc("MC_ErrTable.tla", "MC_C16.cfg", workers=8, timeout=900)
    var = run_tlc("MC_ErrTable.tla", "MC_C16_noretry.cfg", workers=8, timeout=900)
    if base["violated"]:
        v.notes.append("TLC: ErrTable model violates %s" % base["violated"])
    kinds_all = ["enoent", "enotdir", "einval_fd", "einval_flags", "ebadf", "enosys", "exdev"]
    cases = []
    nh = 60 if quick else 600
    for i in range(nh):
        th = rnd.choice([2, 3, 3, 4, 6])
        ops = rnd.choice([2, 3, 4])
        kinds = rnd.sample(kinds_all, rnd.randint(1, 7))
        cases.append(dict(id="hist-%d" % i, tree=[], feat={}, trace=False, calls=[dict(op="errtab_concurrent", threads=th, ops=ops, kinds=kinds)]))
    # several threads consume the same id at the same moment: "called once ... a second call returns NULL" -- at most one winner
    for i in range(2 if quick else 8):
        cases.append(dict(id="hist-race-%d" % i, tree=[], feat={}, trace=False, calls=[dict(op="errtab_race_same", threads=4, rounds=3000 if quick else 20000)]))
    for i, n in enumerate([300000] if quick else [300000, 1000000, 1000000]):
        cases.append(dict(id="birthday-%d" % i, tree=[], feat={}, trace=False, calls=[dict(op="errtab_birthday", n=n)]))
    res = run_pv(cases, jobs=6, tag="C16")
    events, nops = [], 0
    race_rounds = race_multi = 0
    samples = []
    for c, r in zip(cases, res):
        if r.get("status") != "ok" or not r.get("out") or "results" not in r["out"][0]:
            raise ToolError("C16 case failed: %s" % json.dumps(r)[:300])
        x = r["out"][0]["results"][0]
        if c["id"].startswith("hist-race"):
            race_rounds += x.get("rounds", 0)
            race_multi += x.get("multi_winner_rounds", 0)
        if c["id"].startswith("hist"):
            events += history_events(c["id"], x["history"])
            nops += len(x["history"])
            if len(samples) < 2:
                samples.append(dict(case=c["id"], history=x["history"][:6]))
        else:
            events.append(dict(ev="birthday", case=c["id"], t=0, op="", id=x.get("dup_sample", [0])[0] if x.get("dup_sample") else 0, tag=0, got=0, errno=0, want_errno=0, second_null=True,
                               n=x["n"], dups=x["dups"], max=x["max"], first_ok=x["first_ok"], second_non_null=x["second_non_null"]))
            samples.append(dict(case=c["id"], **{k: x[k] for k in ("n", "dups", "min", "max", "first_ok", "second_non_null")}))
    tr = run_trace_tlc("TraceErr.tla", "TraceErr.cfg", events, timeout=1200)
    cons = tr["consumed"]
    if tr["report"] is None and cons is not None and cons["diameter"] != cons["lines"] + 1:
        # no linearization: the first event that no placement could pass
        e = events[max(0, cons["diameter"] - 1)] if cons["diameter"] - 1 < len(events) else {}
        v.violation(dict(check="linearizability", case=e.get("case"), op=e.get("op"), id=e.get("id")),
                    "C16: history %s is not explained by the error table: first unmatched event %s" % (e.get("case"), json.dumps(e)),
                    dict(events=[x for x in events if x.get("case") == e.get("case")]))
    elif tr["report"] is None:
        raise ToolError("TraceErr produced no report: %s" % tr["tlc"]["out"][-1500:])
    else:
        for b in tr["report"]["bad"]:
            v.violation(dict(check="errtable", what=b["what"], case=b["case"]), "C16: %s (case %s, id %s)" % (b["what"], b["case"], b["id"]),
                        next((c for c in cases if c["id"] == b["case"]), {}))
    rc = v.finish()
    cov = dict(same_id_race=dict(rounds=race_rounds, rounds_with_more_than_one_winner=race_multi), states=base["distinct"] + tr["tlc"]["distinct"], transitions=base["states"] + tr["tlc"]["states"], traces_validated_against_impl=len(cases), samples=samples,
               evaluations=nops + sum(s.get("n", 0) for s in samples if "n" in s), distinct_nontrivial=len(cases),
               rule="history = random (threads 2..6, ops 2..4, error kinds) concurrent run with ids consumed on other threads; birthday = N ids outstanding at once; non-trivial: every history has >= 2 threads and cross-thread consumption",
               exhaustive=bool(base["complete"]), tlc_model_complete=base["complete"], tlc_model_violated=base["violated"], variant_noretry_violated=var["violated"],
               linearization_search_states=tr["tlc"]["distinct"], history_ops=nops, build_s=round(build_s, 1), notes=v.notes)
    write_evidence("C16", tier_, "model_checking", cov, ASSUME, time.time() - t0, len(v.violations))
    return rc
