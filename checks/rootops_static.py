"""Static replay of the single-entry mutating operations (C14; also the mutation half of C04 and
the static half of C03): TLC (RootOps.tla) computes, for every (tree, op, path spelling[s]) of the
bounded instance, the expected errno class and final tree; every case is executed on the real
library with and without openat2 and by the harness itself (in-root parent via raw openat2 + the
raw *at call); outcomes and final trees are compared three ways."""
import json, time, random, collections
from lib.common import *

FEATS = [("kernel", {"openat2": True}), ("emulated", {"openat2": False})]
RENAME_FLAGS = {"": 0, "NOREPLACE": 1, "EXCHANGE": 2, "WHITEOUT": 4, "WHITEOUT_NOREPLACE": 5}


def rflags(op):
    return op.get("raw") or RENAME_FLAGS.get(op["flag"], 0)


def cf_flags(op):
    fl = O["PATH"] if op["opath"] else O[op["acc"]]
    if op["excl"]:
        fl |= O["EXCL"]
    if op["odir"]:
        fl |= O["DIRECTORY"]
    return fl


def lib_call(c):
    op, path, path2 = c["op"], "/".join(c["path"]), "/".join(c["path2"])
    o = op["op"]
    if o == "create":
        d = dict(op="create", path=path, kind=op["kind"], mode=0o644 if op["kind"] != "dir" else 0o755)
        if op["kind"] in ("lnk", "hard"):
            d["target"] = path2
        return d
    if o == "create_file":
        return dict(op="create_file", path=path, oflags=cf_flags(op), mode=0o640)
    if o in ("remove_file", "remove_dir"):
        return dict(op=o, path=path)
    return dict(op="rename", src=path, dst=path2, flags=rflags(op))


def kref_call(c):
    """the raw *at call on (in-root parent, name) per the model's split; None if the split has no name"""
    op, sp, sp2 = c["op"], c["split"], c["split2"]
    if sp["name"] == "<none>":
        return None
    d = dict(op="kmut", dir="/".join(sp["dir"]), name=sp["name"])
    o = op["op"]
    if o == "create":
        k = op["kind"]
        d["sys"] = {"file": "mknod", "fifo": "mkfifo", "dir": "mkdir", "lnk": "symlink", "hard": "link", "chr": "mkchr", "blk": "mkblk"}[k]
        d["mode"] = 0o644 if k != "dir" else 0o755
        if k == "lnk":
            d["target"] = "/".join(c["path2"])
        if k == "hard":
            if sp2["name"] == "<none>":
                return None
            d["dir2"], d["name2"] = "/".join(sp2["dir"]), sp2["name"]
    elif o == "create_file":
        if op["opath"]:
            return None     # refused by the library before any syscall (O_PATH makes O_CREAT a no-op)
        d.update(sys="creat", oflags=cf_flags(op), mode=0o640)
    elif o == "remove_file":
        d["sys"] = "unlink"
    elif o == "remove_dir":
        d["sys"] = "rmdir"
    else:
        if sp2["name"] == "<none>":
            return None
        d.update(sys="rename", dir2="/".join(sp2["dir"]), name2=sp2["name"], flags=rflags(op))
    return d


def shape_of_snapshot(snap, first_new):
    kinds = {i["id"]: i["k"] for i in snap["inodes"]}
    return frozenset((d["p"] if d["p"] < first_new else "NEW", d["n"], d["c"] if d["c"] < first_new else "NEW", kinds.get(d["c"])) for d in snap["dents"])


def new_attrs(snap, first_new):
    """attributes of the objects a call created (everything the *at call determines besides the name): kind, permission
    bits, link body, device number, link count"""
    ino = {i["id"]: i for i in snap["inodes"]}
    out = set()
    for d in snap["dents"]:
        if d["c"] >= first_new:
            i = ino.get(d["c"], {})
            out.add((d["p"] if d["p"] < first_new else "NEW", d["n"], i.get("k"), i.get("mode"), i.get("b"), i.get("rdev"), i.get("nlink") if i.get("k") != "dir" else None))
    return frozenset(out)


def old_attrs_changed(init, final, first_new):
    """pre-existing objects whose kind, permission bits, owner or link body differ after the call"""
    a = {i["id"]: (i.get("k"), i.get("mode"), i.get("uid"), i.get("b")) for i in init["inodes"] if i["id"] < first_new}
    b = {i["id"]: (i.get("k"), i.get("mode"), i.get("uid"), i.get("b")) for i in final["inodes"] if i["id"] < first_new}
    return frozenset((i, a[i], b[i]) for i in a if i in b and a[i] != b[i])


def shape_of_model(c, newino):
    kinds = c["kinds"]
    kk = {int(k): v for k, v in (kinds.items() if isinstance(kinds, dict) else enumerate(kinds))}
    return frozenset((d[0] if d[0] != newino else "NEW", d[1], d[2] if d[2] != newino else "NEW", kk.get(d[2])) for d in c["dents"])


def outcome(r, first_new):
    o = lib_outcome(r)
    if o[0] == "ok" and r.get("id") is not None:
        i = r.get("id")
        return ("ok", "NEW" if (i >= first_new or i == 0 and r.get("in_scratch")) else i)
    if o[0] == "ok":
        return ("ok", None)
    if o == ("err", "InvalidArgument"):
        return ("err", "InvalidArgument")
    return o


def model_out(c, newino):
    e = c["expect"]
    if e.get("ok"):
        if c["op"]["op"] == "create_file":
            return ("ok", "NEW" if e.get("ino") == newino else e.get("ino"))
        return ("ok", None)
    return ("err", e.get("err"))


def run(prop, tier_, sample=None, jobs=12, newino=20):
    t0 = time.time()
    build_s = build_harness()
    design = run_tlc("MC_RootOps.tla", "MC_C14_%s.cfg" % tier_, workers=8, timeout=1800)
    gen = run_tlc("MC_RootOps.tla", "MC_C14_%s_gen.cfg" % tier_, workers=8, timeout=3000)
    if not gen["complete"]:
        print(gen["out"][-2000:])
        raise ToolError("TLC case generation incomplete")
    trees, cases = {}, []
    for tag, body in gen["prints"]:
        if tag == "TREES":
            for t in body:
                trees[t["name"]] = t
        elif tag == "CASE":
            cases.append(body)
    rnd = random.Random(seed())
    total = len(cases)
    if sample and len(cases) > sample:
        # every case whose final name is a dot name or whose model verdict is a C03 design violation stays
        keep = [c for c in cases if c["split"]["name"] in (".", "..") or not c["frame"] or not c["inside"] or c["split2"]["name"] in (".", "..")]
        rest = [c for c in cases if c not in keep]
        rnd.shuffle(rest)
        rnd.shuffle(keep)
        cases = keep[:sample // 2] + rest[:sample - min(len(keep), sample // 2)]
    pv_cases, index = [], []
    for ci, c in enumerate(cases):
        nodes = []
        for n in trees[c["tree"]]["nodes"]:
            if n["k"] == "hard":
                nodes.append(dict(id=1000 + len(nodes), p=n["p"], n=n["n"], k="hard", b=str(n["id"])))
            else:
                nodes.append(node_to_pv(n))
        # every second case goes through the C ABI (pathrs_inroot_*), the others through the Rust API
        api = "c" if ci % 2 else "rust"
        c["api"] = api
        # every fifth case is called from a thread with a private descriptor table while the thread-group leader holds a
        # directory outside the root at the same descriptor numbers (caller context; the outcome must not depend on it)
        thr = ci % 5 == 4
        c["in_thread"] = thr
        # ... and every seventh case with a root the caller opened O_RDONLY|O_DIRECTORY itself (not an O_PATH descriptor)
        rdo = ci % 7 == 3
        for bname, feat in FEATS:
            pv_cases.append(dict(id="%d-%s" % (ci, bname), tree=nodes, feat=feat, trace=False, in_thread=thr, root_rdonly=rdo, calls=[dict(lib_call(c), api=api)]))
            index.append((ci, bname))
        k = kref_call(c)
        if k is not None:
            pv_cases.append(dict(id="%d-kref" % ci, tree=nodes, feat=FEATS[0][1], trace=False, calls=[k]))
            index.append((ci, "kref"))
    order = sorted(range(len(pv_cases)), key=lambda i: json.dumps(pv_cases[i]["feat"], sort_keys=True))
    pv_cases = [pv_cases[i] for i in order]
    index = [index[i] for i in order]
    results = run_pv(pv_cases, jobs=jobs, tag=prop)
    results, still_noisy = rerun_noisy(pv_cases, results, tag=prop + "r")
    per = collections.defaultdict(dict)
    for (ci, who), r in zip(index, results):
        if r.get("error") or not r.get("out") or "results" not in r["out"][0]:
            raise ToolError("pv case failed: %s" % json.dumps(r)[:400])
        first_new = max([i["id"] for i in r["init"]["inodes"]]) + 1
        res0 = r["out"][0]["results"][0]
        per[ci][who] = dict(out=outcome(res0, first_new), shape=shape_of_snapshot(r["final"], first_new), raw=res0, newattrs=new_attrs(r["final"], first_new), oldchanged=old_attrs_changed(r["init"], r["final"], first_new),
                            init_shape=shape_of_snapshot(r["init"], first_new))
    return dict(cases=cases, per=per, trees=trees, design=design, gen=gen, total=total, build_s=build_s, t0=t0, newino=newino)


def judge_c14(data, v, stats, samples):
    """lib (both backends) == raw *at call on (in-root parent, name); model expectation cross-checked"""
    for ci, c in enumerate(data["cases"]):
        d = data["per"][ci]
        m_out, m_shape = model_out(c, data["newino"]), shape_of_model(c, data["newino"])
        # hard links appear in the model under the shared inode id; in snapshots likewise (same inode => same id)
        ref = d.get("kref")
        stats["cases"] += 1
        path, path2 = "/".join(c["path"]), "/".join(c["path2"])
        if ref is not None:
            if (ref["out"][0], ref["out"][1] if ref["out"][0] == "err" else None) != (m_out[0], m_out[1] if m_out[0] == "err" else None) or ref["shape"] != m_shape:
                stats["oracle_vs_kernel_mismatch"] += 1
                if stats["oracle_vs_kernel_mismatch"] <= 8:
                    v.notes.append("kernel-model mismatch: %s %r %r model=%s kernel=%s shape_equal=%s" % (c["op"], path, path2, m_out, ref["out"], ref["shape"] == m_shape))
            truth_out, truth_shape = ref["out"], ref["shape"]
        else:
            truth_out, truth_shape = m_out, m_shape     # trailing slash / empty: InvalidArgument, tree unchanged
        for bname, _ in FEATS:
            got = d[bname]
            stats["runs_" + bname] += 1
            # the C ABI reports ErrorKind::InvalidArgument as EINVAL and safety violations as EXDEV (by contract, C16)
            canon = (lambda e: {"InvalidArgument": "EINVAL", "SAFETY": "EXDEV"}.get(e, e)) if c.get("api") == "c" else (lambda e: e)
            same_out = got["out"][0] == truth_out[0] and (got["out"][0] != "err" or canon(got["out"][1]) == canon(truth_out[1])) and \
                (c["op"]["op"] != "create_file" or got["out"][0] != "ok" or got["out"] == truth_out)
            same_attrs = (ref is None or got["newattrs"] == ref["newattrs"]) and got["oldchanged"] == (ref["oldchanged"] if ref is not None else frozenset())
            if same_out and got["shape"] == truth_shape and same_attrs:
                stats["agree_" + bname] += 1
                continue
            sig = dict(check="rootops-static", backend=bname, op=c["op"]["op"], final_name=c["split"]["name"], path=path, path2=path2, tree=c["tree"],
                       got=list(got["out"]), want=list(truth_out), opdetail=c["op"])
            desc = ("[C API] " if c.get("api") == "c" else "") + ("[caller: thread with a private descriptor table] " if c.get("in_thread") else "") + "%s backend: %s(%r%s) on tree %s: outcome %s, final tree %s; the raw *at call on (in-root parent %r, name %r) gives %s" % (
                bname, json.dumps(c["op"]), path, (", %r" % path2) if path2 else "", c["tree"], got["out"],
                ("as expected" if same_attrs else "has the right entries but the created object differs in (kind, mode, link body, device, nlink), or an existing object was modified: library %s / %s, raw call %s / %s" % (
                    sorted(got["newattrs"], key=str), sorted(got["oldchanged"], key=str), sorted(ref["newattrs"], key=str) if ref else None, sorted(ref["oldchanged"], key=str) if ref else None))
                if got["shape"] == truth_shape else "DIFFERS (%s)" % sorted(got["shape"] ^ truth_shape, key=str)[:4],
                "/".join(c["split"]["dir"]), c["split"]["name"], truth_out)
            replay = dict(id="replay", tree=[node_to_pv(n) for n in data["trees"][c["tree"]]["nodes"] if n["k"] != "hard"], feat=dict(FEATS)[bname], trace=False, in_thread=bool(c.get("in_thread")), calls=[dict(lib_call(c), api=c.get("api", "rust"))])
            v.violation(sig, desc, replay)
        if len(samples) < 5 and c["split"]["name"] in (".", ".."):
            samples.append(dict(tree=c["tree"], op=c["op"], path=path, path2=path2, model=list(m_out), kernel_ref=list(ref["out"]) if ref else None,
                                lib_kernel=list(d["kernel"]["out"]), lib_emulated=list(d["emulated"]["out"])))


UNPRIV = 65534


def run_unpriv(data, v, stats, n=400, jobs=12):
    """The same operations by an unprivileged caller (effective uid 65534) on the same trees with mixed ownership (objects
    with an even inode number -- and, for every second case, the root directory -- are the caller's, the rest root's):
    library (both backends, both API surfaces) == the raw *at call on (in-root parent, final name) made by the same
    caller -- the permission answers included."""
    rnd = random.Random(seed() + 7)
    cand = [(ci, c) for ci, c in enumerate(data["cases"]) if kref_call(c) is not None]
    rnd.shuffle(cand)
    # permissions matter where the privileged call would succeed: three quarters of the sample from those cases
    okc = [x for x in cand if x[1]["expect"].get("ok")]
    cand = okc[:3 * n // 4] + [x for x in cand if not x[1]["expect"].get("ok")][:n - min(len(okc), 3 * n // 4)]
    pv_cases, index = [], []
    for ci, c in cand:
        nodes = []
        for nd in data["trees"][c["tree"]]["nodes"]:
            if nd["k"] == "hard":
                nodes.append(dict(id=1000 + len(nodes), p=nd["p"], n=nd["n"], k="hard", b=str(nd["id"])))
            else:
                x = node_to_pv(nd)
                if nd["id"] % 2 == 0:
                    x["uid"] = UNPRIV
                nodes.append(x)
        if ci % 2 == 0:
            nodes.insert(0, dict(id=90, p=2, n="", k="rootattr", uid=UNPRIV))
        api = "c" if ci % 4 >= 2 else "rust"
        for bname, feat in FEATS:
            pv_cases.append(dict(id="u%d-%s" % (ci, bname), tree=nodes, feat=feat, trace=False, calls=[dict(lib_call(c), api=api, euid=UNPRIV)]))
            index.append((ci, bname, api))
        pv_cases.append(dict(id="u%d-kref" % ci, tree=nodes, feat=FEATS[0][1], trace=False, calls=[dict(kref_call(c), euid=UNPRIV)]))
        index.append((ci, "kref", api))
    order = sorted(range(len(pv_cases)), key=lambda i: json.dumps(pv_cases[i]["feat"], sort_keys=True))
    pv_cases = [pv_cases[i] for i in order]
    index = [index[i] for i in order]
    results = run_pv(pv_cases, jobs=jobs, tag="C14u")
    results, _ = rerun_noisy(pv_cases, results, tag="C14ur")
    per = collections.defaultdict(dict)
    for (ci, who, api), r, pc in zip(index, results, pv_cases):
        if r.get("error") or not r.get("out") or "results" not in r["out"][0]:
            raise ToolError("pv case failed: %s" % json.dumps(r)[:400])
        first_new = max([i["id"] for i in r["init"]["inodes"]]) + 1
        res0 = r["out"][0]["results"][0]
        per[ci][who] = dict(out=outcome(res0, first_new), shape=shape_of_snapshot(r["final"], first_new), newattrs=new_attrs(r["final"], first_new),
                            oldchanged=old_attrs_changed(r["init"], r["final"], first_new), api=api, case=pc)
    outc = collections.Counter()
    for ci, c in cand:
        d = per[ci]
        ref = d["kref"]
        outc[str(ref["out"][1]) if ref["out"][0] == "err" else "ok"] += 1
        for bname, _ in FEATS:
            got = d[bname]
            stats["unpriv_runs"] += 1
            canon = (lambda e: {"InvalidArgument": "EINVAL", "SAFETY": "EXDEV"}.get(e, e)) if got["api"] == "c" else (lambda e: e)
            same_out = got["out"][0] == ref["out"][0] and (got["out"][0] != "err" or canon(got["out"][1]) == canon(ref["out"][1])) and \
                (c["op"]["op"] != "create_file" or got["out"][0] != "ok" or got["out"] == ref["out"])
            if same_out and got["shape"] == ref["shape"] and got["newattrs"] == ref["newattrs"] and got["oldchanged"] == ref["oldchanged"]:
                stats["unpriv_agree"] += 1
                continue
            path, path2 = "/".join(c["path"]), "/".join(c["path2"])
            v.violation(dict(check="rootops-unprivileged", backend=bname, op=c["op"]["op"], path=path, path2=path2, tree=c["tree"], got=list(got["out"]), want=list(ref["out"])),
                        "%s%s backend, caller uid 65534 on tree %s with mixed ownership: %s(%r%s): outcome %s, final tree %s; the raw *at call on (in-root parent %r, name %r) by the same caller gives %s" % (
                            "[C API] " if got["api"] == "c" else "", bname, c["tree"], json.dumps(c["op"]), path, (", %r" % path2) if path2 else "", got["out"],
                            "the same" if got["shape"] == ref["shape"] else "DIFFERS (%s)" % sorted(got["shape"] ^ ref["shape"], key=str)[:4], "/".join(c["split"]["dir"]), c["split"]["name"], ref["out"]), got["case"])
    stats["unpriv_outcomes"] = dict(outc)
