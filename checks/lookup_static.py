"""C01 / C04(lookups): TLC model-checks the lookup algorithms against the kernel-model oracle on
static trees and exports one case per explored (tree, path, op); every case is replayed against
the real library on both backends and against the real kernel's openat2 (three-way)."""
import json, time, random, collections
from lib.common import *

FEATS = [("kernel", {"openat2": True}), ("emulated", {"openat2": False})]


def op_to_calls(op, path):
    """library call + the kernel reference call for one model op"""
    nos = bool(op["nosym"])
    if op["op"] == "resolve":
        lib = dict(op="resolve", path=path, nofollow=bool(op["nofollow"]), nosym=nos)
        kfl = O["PATH"] | (O["NOFOLLOW"] if op["nofollow"] else 0)
    elif op["op"] == "readlink":
        lib = dict(op="readlink", path=path, nosym=nos)
        kfl = O["PATH"] | O["NOFOLLOW"]
    else:
        fl = (O["PATH"] if op["acc"] == "PATH" else O["RDONLY"] | O["NONBLOCK"])
        if op["odir"]:
            fl |= O["DIRECTORY"]
        if op["nofollow"]:
            fl |= O["NOFOLLOW"]
        lib = dict(op="open", path=path, oflags=fl, nosym=nos)
        kfl = fl
    ker = dict(op="kopen", path=path, oflags=kfl, nosym=nos)
    return lib, ker


UNPRIV = 65534


def tree_nodes(t):
    """pv nodes of a model tree; directories marked nx (not searchable for the caller) are rwxr--r-- and root's"""
    out = []
    for n in t["nodes"]:
        d = node_to_pv(n)
        if n.get("nx"):
            d["mode"] = 0o744
        out.append(d)
    return out


def calls_for(t, c):
    lib, ker = op_to_calls(c["op"], join_path(c["path"]))
    if any(n.get("nx") for n in t["nodes"]):
        lib, ker = dict(lib, euid=UNPRIV), dict(ker, euid=UNPRIV)
    return lib, ker


def kernel_as_outcome(op, kres, bodies):
    """turn the raw openat2 reference result into the outcome the op should have"""
    o = lib_outcome(kres)
    if op["op"] == "readlink" and o[0] == "ok":
        if kres.get("ft") == "lnk":
            return ("body", bodies.get(o[1], "?"))
        return ("err", "ENOENT")   # readlinkat(fd, "") on a non-link: ENOENT (fs/stat.c do_readlinkat)
    return o


def run(prop, tier_, cfg, sample=None, jobs=12, bind_budget=False):
    t0 = time.time()
    v = Verdict(prop)
    build_s = build_harness()
    tlc = run_tlc("MC_Lookup.tla", cfg, workers=8, timeout=3000)
    if tlc.get("tool_error") or (not tlc["complete"] and not tlc["violated"]):
        print(tlc["out"][-3000:])
        raise ToolError("TLC did not complete")
    trees = {}
    cases = []
    for tag, body in tlc["prints"]:
        if tag == "TREES":
            for t in body:
                trees[t["name"]] = t
        elif tag == "CASE":
            cases.append(body)
    if not cases:
        raise ToolError("TLC exported no cases")
    model_violation = tlc["violated"]
    rnd = random.Random(seed())
    if sample and len(cases) > sample:
        # keep every case in which the algorithm model and the oracle disagree, sample the rest
        keep = [c for c in cases if c["model"] != c["expect"] and not c["budget"]]
        rest = [c for c in cases if not (c["model"] != c["expect"] and not c["budget"])]
        rnd.shuffle(rest)
        cases = keep + rest[:sample]
    # group by tree, batches of calls
    by_tree = collections.defaultdict(list)
    for c in cases:
        by_tree[c["tree"]].append(c)
    pv_cases, index = [], []
    B = 150
    for tname, cs in by_tree.items():
        nodes = tree_nodes(trees[tname])
        unpriv = any(n.get("nx") for n in trees[tname]["nodes"])      # a tree with unsearchable directories is walked by uid 65534
        for b0 in range(0, len(cs), B):
            chunk = cs[b0:b0 + B]
            for bname, feat in FEATS:
                calls = []
                for qi, c in enumerate(chunk):
                    lib, ker = op_to_calls(c["op"], join_path(c["path"]))
                    # every third case goes through the C ABI (pathrs_inroot_resolve / _resolve_nofollow / _open / _readlink)
                    if qi % 3 == 2 and not lib.get("nosym"):     # (the C ABI has no resolver flags)
                        lib = dict(lib, api="c")
                    if unpriv:
                        lib, ker = dict(lib, euid=UNPRIV), dict(ker, euid=UNPRIV)
                    calls.append(lib)
                    if bname == "kernel":
                        calls.append(ker)
                # every third batch is called from a thread with a private descriptor table (the leader holds a directory outside
                # the root at the same descriptor numbers), another third with a root descriptor the caller opened
                # O_RDONLY|O_DIRECTORY itself: the answers must not depend on the caller's context
                pv_cases.append(dict(id="%s-%s-%d" % (tname, bname, b0), tree=nodes, feat=feat, trace=False, in_thread=((b0 // B) % 3 == 2), root_rdonly=((b0 // B) % 3 == 1), calls=calls))
                index.append((tname, bname, chunk))
    # sort so that shards see one feature set contiguous
    order = sorted(range(len(pv_cases)), key=lambda i: index[i][1])
    pv_cases = [pv_cases[i] for i in order]
    index = [index[i] for i in order]
    results = run_pv(pv_cases, jobs=jobs, tag=prop)
    # evaluate
    stats = collections.Counter()
    per_case = {}   # key -> dict(expect, kernel, lib_kernel, lib_emulated)
    samples = []
    collect(index, results, per_case)
    # openat2 may answer EAGAIN whenever a rename or mount happens anywhere on the machine while a
    # walk contains '..' (DESIGN 5.1): such cases are re-run, and counted inconclusive if it persists
    for attempt in range(5):
        # (the library turns 16 consecutive EAGAINs into a safety violation: same cause, same treatment)
        again = [d["case"] for d in per_case.values() if ("err", "EAGAIN") in (d.get("lib_kernel"), d.get("kernel")) or d.get("lib_kernel") == ("err", "SAFETY")]
        if not again:
            break
        stats["eagain_reruns"] += len(again)
        pv2, idx2 = [], []
        for c in again:
            nodes = tree_nodes(trees[c["tree"]])
            lib, ker = calls_for(trees[c["tree"]], c)
            pv2.append(dict(id="rerun", tree=nodes, feat=FEATS[0][1], trace=False, calls=[lib, ker]))
            idx2.append((c["tree"], "kernel", [c]))
        collect(idx2, run_pv(pv2, jobs=1, tag=prop + "r"), per_case)
    evaluate(per_case, trees, v, stats, samples, bind_budget, flags_too=(prop == "C04"))
    # action-level conformance: a sample of the same cases, traced on the emulated backend, must be
    # behaviours of Lookup.tla (every real relevant syscall = the model's next action)
    from lib.project import lookup_conformance
    rc_cases = list(cases)       # resolve / resolve_nofollow / open_subpath / readlink, with and without NO_SYMLINKS
    rnd.shuffle(rc_cases)
    # three of four on the emulated backend (the step machine), one of four on the openat2 backend (K_Openat2)
    tcases = [dict(id="conf|%d" % i, tree=tree_nodes(trees[c["tree"]]), feat={"openat2": i % 4 == 3}, trace=True, raw=False,
                   calls=[calls_for(trees[c["tree"]], c)[0]]) for i, c in enumerate(rc_cases[:400 if sample else 4000])]
    tcases.sort(key=lambda c: c["feat"]["openat2"])
    if prop != "C01":
        tcases = tcases[:40]      # the action-level conformance belongs to C01; other users of this family keep a smoke sample
    tres = run_pv(tcases, jobs=jobs, tag=prop + "c")
    conf = lookup_conformance(tcases, tres)
    stats["conf_validated"], stats["conf_accepted"], stats["conf_drift"] = conf["validated"], conf["accepted"], len(conf["drift"])
    stats["conf_samples"] = conf["drift"][:3]
    for d in conf["drift"][:5]:
        print("MODEL-DRIFT (not an alarm): real trace of %s is not a behaviour of Lookup.tla; first unmatched event #%s/%s: %s" % (d.get("call"), d.get("at_event"), d.get("of"), json.dumps(d.get("first_unmatched"))[:200]))
    return finish(prop, v, tlc, cfg, sample, stats, samples, model_violation, build_s, t0)


def collect(index, results, per_case):
    for (tname, bname, chunk), res in zip(index, results):
        if res.get("error") or res.get("status") != "ok" or not res["out"] or "results" not in res["out"][0]:
            raise ToolError("pv case %s failed: %s" % (res.get("id"), json.dumps(res)[:500]))
        rs = res["out"][0]["results"]
        bodies = {i["id"]: i.get("b") for i in res["init"]["inodes"] if i["k"] == "lnk"}
        pos = 0
        for c in chunk:
            key = (tname, "/".join(c["path"]), json.dumps(c["op"], sort_keys=True))
            d = per_case.setdefault(key, dict(case=c))
            lib = rs[pos]
            pos += 1
            d["lib_" + bname] = lib_outcome(lib)
            if "capi_id" in lib and lib.get("errno") == 18 and "openat2 to abort" in (lib.get("msg") or ""):
                d["lib_" + bname] = ("err", "SAFETY")      # the C ABI reports the 16-EAGAIN safety violation as EXDEV: same noise rule
            d["raw_" + bname] = lib
            if bname == "kernel":
                d["kernel"] = kernel_as_outcome(c["op"], rs[pos], bodies)
                d["raw_kref"] = rs[pos]
                pos += 1


FL_MASK = O["RDONLY"] | O["WRONLY"] | O["RDWR"] | O["APPEND"] | O["NONBLOCK"] | O["DIRECT"] | O["SYNC"] | O["NOATIME"] | O["DIRECTORY"] | O["PATH"]


def evaluate(per_case, trees, v, stats, samples, bind_budget=False, flags_too=False):
    nontrivial = 0
    for key, d in per_case.items():
        c = d["case"]
        expect = model_outcome(c["expect"])
        stats["cases"] += 1
        path = "/".join(c["path"])
        has_special = any(x in ("..", ".", "") for x in c["path"]) or any(
            n["k"] == "lnk" and n["n"] in c["path"] for n in trees[c["tree"]]["nodes"])
        if has_special:
            nontrivial += 1
        kern = d.get("kernel")
        if ("err", "EAGAIN") in (kern, d.get("lib_kernel")) or d.get("lib_kernel") == ("err", "SAFETY"):
            stats["inconclusive_eagain"] += 1
            continue
        if kern is not None and kern != expect and not (c["budget"]):
            stats["oracle_vs_kernel_mismatch"] += 1
            if stats["oracle_vs_kernel_mismatch"] <= 5:
                v.notes.append("kernel-model mismatch tree=%s path=%r op=%s model=%s kernel=%s" % (c["tree"], path, c["op"], expect, kern))
        truth = kern if kern is not None else expect
        for bname, _ in FEATS:
            got = d.get("lib_" + bname)
            if got is None:
                continue
            stats["lookups_" + bname] += 1
            if c["budget"] and bname == "emulated":
                # between the kernel's and the emulation's link budget the backends legitimately differ (outside
                # the equivalence quantifier); the emulated outcome is bound to the step machine's own prediction
                stats["budget_cases"] += 1
                # the property bounds the walk but does not fix the bound: an emulated lookup beyond the kernel's 40
                # links either ends with ELOOP or returns what a walk without a budget returns -- nothing else
                free = model_outcome(c["free"]) if "free" in c else None
                if got != ("err", "ELOOP") and free is not None and got != free:
                    sig = dict(check="static-lookup-budget", backend=bname, op=c["op"]["op"], path=path, tree=c["tree"], got=list(got), want=list(free))
                    v.violation(sig, "emulated backend: %s(%r) on tree %s (more than 40 link traversals) gave %s; it must be ELOOP or the unbudgeted in-root answer %s" % (
                        c["op"], path, c["tree"], got, free), dict(id="replay", tree=[node_to_pv(n) for n in trees[c["tree"]]["nodes"]], feat={"openat2": False}, trace=False, calls=[op_to_calls(c["op"], path)[0]]))
                elif bind_budget and got != model_outcome(c["model"]):
                    # evidence only: the implementation's constant differs from the one in MC_C01_budget.cfg
                    stats["budget_constant_drift"] += 1
                continue
            if got == truth:
                stats["agree_" + bname] += 1
                # C04: "... the same resulting object opened with the same access mode, close-on-exec flag and I/O status
                # flags (append, non-blocking, direct, sync, noatime, directory)": F_GETFL of the returned descriptor against
                # the raw openat2 call's (O_NOFOLLOW, which the kernel merely echoes, excluded)
                rawk, rawl = d.get("raw_kref"), d.get("raw_" + bname)
                if flags_too and got[0] == "ok" and rawk and rawl and rawk.get("ok") and "fl" in rawk and "fl" in rawl:
                    a, b = (rawl["fl"] & FL_MASK, bool(rawl.get("cloexec"))), (rawk["fl"] & FL_MASK, bool(rawk.get("cloexec")))
                    stats["flags_compared"] += 1
                    if a != b:
                        v.violation(dict(check="static-lookup-flags", backend=bname, op=c["op"]["op"], path=path, tree=c["tree"], got=[oct(a[0]), a[1]], want=[oct(b[0]), b[1]]),
                                    "%s backend: %s(%r) on tree %s returns the right object but as a descriptor with F_GETFL %#o, close-on-exec %s; the openat2 call returns F_GETFL %#o, close-on-exec %s" % (
                                        bname, c["op"], path, c["tree"], a[0], a[1], b[0], b[1]),
                                    dict(id="replay", tree=[node_to_pv(n) for n in trees[c["tree"]]["nodes"]], feat=dict(FEATS)[bname], trace=False, calls=list(op_to_calls(c["op"], path))))
                continue
            sig = dict(check="static-lookup", backend=bname, op=c["op"]["op"], path=path, tree=c["tree"],
                       nofollow=c["op"]["nofollow"], nosym=c["op"]["nosym"], got=list(got), want=list(truth))
            desc = "%s backend: %s(%r) on tree %s gave %s, kernel in-root resolution gives %s (model oracle: %s)" % (
                bname, c["op"], path, c["tree"], got, truth, expect)
            replay = dict(id="replay", tree=tree_nodes(trees[c["tree"]]), feat=dict(FEATS)[bname], trace=False,
                          calls=list(calls_for(trees[c["tree"]], c)) if bname == "kernel" else [calls_for(trees[c["tree"]], c)[0]],
                          expect=list(truth))
            # known-finding signatures ignore the tree: match on path/op/backend
            v.violation(sig, desc, replay)
        if len(samples) < 6 and has_special:
            samples.append(dict(tree=c["tree"], path=path, op=c["op"], oracle=list(expect), kernel=list(kern) if kern else None,
                                lib_kernel=list(d.get("lib_kernel", [])), lib_emulated=list(d.get("lib_emulated", []))))
    stats["nontrivial"] = nontrivial


def finish(prop, v, tlc, cfg, sample, stats, samples, model_violation, build_s, t0):
    nontrivial = stats["nontrivial"]
    if model_violation:
        v.notes.append("TLC: algorithm model violates %s (replayed against the real code above)" % model_violation)
    wall = time.time() - t0
    cov = dict(states=tlc["distinct"], transitions=tlc["states"], traces_validated_against_impl=stats["cases"],
               samples=samples, evaluations=stats["lookups_kernel"] + stats["lookups_emulated"],
               distinct_nontrivial=nontrivial,
               rule="TLC enumerates every (tree, path, op) of the bounded instance and prints one case per terminal state; "
                    "distinct = distinct (tree, path string, op); non-trivial = path contains '..', '.', an empty component or the name of a symlink",
               exhaustive=bool(tlc["complete"] and not sample),
               tlc_complete=tlc["complete"], tlc_depth=tlc.get("depth"), tlc_cfg=cfg, tlc_wall_s=round(tlc["wall"], 1),
               model_invariant_violated=model_violation,
               oracle_vs_kernel_mismatch=stats["oracle_vs_kernel_mismatch"], budget_cases=stats["budget_cases"], budget_constant_drift=stats["budget_constant_drift"],
               inconclusive_eagain=stats["inconclusive_eagain"], eagain_reruns=stats["eagain_reruns"],
               lookup_model_conformance=dict(validated=stats["conf_validated"], accepted=stats["conf_accepted"], drift=stats["conf_drift"], drift_samples=stats.get("conf_samples", [])),
               descriptor_flags_compared=stats["flags_compared"], agree_kernel=stats["agree_kernel"], agree_emulated=stats["agree_emulated"], build_s=round(build_s, 1),
               notes=v.notes[:10])
    return v, cov, wall
