"""C02: lookups never escape the root under any attacker schedule.
 (M) TLC: Lookup.tla with the attacker, invariant Contained, all placements of the attacker's
     mutations between the library's steps; mechanism-removal variants must violate it.
 (G) attack ingredients = race trees x lookup paths x attacker repertoire (+ the variants'
     counterexamples), (V) every placement before every relevant syscall is executed against the
     real library under the ptrace supervisor and judged by TLC trace validation (TraceFS)."""
import json, time, random, collections
from lib.common import *
from lib.project import *
from checks import race

ASSUME = ["a single openat2 call is atomic-or-EAGAIN in the kernel (trusted base for the kernel backend)",
          "preemption only matters at syscalls that read or write shared state (tree-relative calls and the d_path reads); the sweep places attacker actions before each of them",
          "the attacker never moves the root itself or its ancestors (out of contract)",
          "TLC explores bounded instances (race trees, explicit path lists, attacker budget)"]

VARIANT_BASE = """SPECIFICATION Spec
CONSTANTS
  Trees <- const_TreesRace
  Ops <- %(ops)s
  Backends = {"emulated", "kernel"}
  MaxIno = 10
  KMaxLinks = 4
  EmuMaxLinks = 7
  KRetry = 2
  MaxAttack = %(maxattack)d
  AtkNames <- const_AtkNames
  AtkBodies <- const_AtkBodies
  AtkKinds = %(kinds)s
  ChkAfterDotDot = %(ChkAfterDotDot)s
  ChkFinal = %(ChkFinal)s
  ClampDotDot = TRUE
  RestartAbsAtRoot = TRUE
  NoFollowOnOpen = TRUE
  TrailingSlashIsDirTest = TRUE
  EmptyPathIsENOENT = TRUE
  EmitCases = FALSE
INVARIANTS TypeOK Contained
CHECK_DEADLOCK FALSE
"""
ALLK = '{"rename", "exchange", "unlink", "symlink", "mkdir"}'


def tlc_variant(name, maxattack, kinds, dd, fin, ops="const_OpsAll", timeout=1500):
    cfg = os.path.join(workdir(), "C02-%s.cfg" % name)
    with open(cfg, "w") as f:
        f.write(VARIANT_BASE % dict(ops=ops, maxattack=maxattack, kinds=kinds, ChkAfterDotDot="TRUE" if dd else "FALSE", ChkFinal="TRUE" if fin else "FALSE"))
    ce = os.path.join(workdir(), "C02-%s-ce.json" % name)
    r = run_tlc("MC_Lookup.tla", cfg, workers=12, timeout=timeout, extra=["-dumpTrace", "json", ce])
    trace = None
    if r["violated"] and os.path.exists(ce):
        try:
            trace = json.load(open(ce))
        except Exception:
            trace = None
    return r, trace


def ingredients_from_ce(trace):
    """tree, path, op and the attacker's mutation (as a dentry diff) of a TLC counterexample"""
    try:
        states = [s[1] if isinstance(s, list) else s for s in trace["counterexample"]["state"]]
    except Exception:
        return None
    first, last = states[0], states[-1]
    muts = []
    for a, b in zip(states, states[1:]):
        if b["natk"] != a["natk"]:
            da = {tuple(x) for x in a["fs"]["dents"]}
            db = {tuple(x) for x in b["fs"]["dents"]}
            muts.append(dict(removed=sorted(da - db), added=sorted(db - da), at_pc=a["pc"], nsteps=a["nsteps"]))
    return dict(tree=first["tree"], path="/".join(first["path"]), op=first["op"], result=last["res"], mutations=muts)


def main(tier_):
    t0 = time.time()
    quick = tier_ == "quick"
    rnd = random.Random(seed())
    v = Verdict("C02")
    verdicts = collections.defaultdict(lambda: Verdict("X"))
    verdicts["C02"] = v
    build_s = build_harness()
    stats = collections.Counter()
    samples = []
    # ---------------- (M) design: the algorithm model with the attacker
    base, _ = tlc_variant("base", 1 if quick else 2, ALLK if quick else '{"rename", "exchange", "unlink", "mkdir"}', True, True,
                          timeout=600 if quick else 3000)
    if base["violated"]:
        v.notes.append("TLC: algorithm model violates %s with all mechanisms on (replayed below by the sweep)" % base["violated"])
    elif not base["complete"]:
        v.notes.append("TLC base run incomplete (timeout): %s distinct states" % base["distinct"])
    variants = {}
    vlist = [("no-checks", 1, ALLK, False, False)]
    if not quick:
        vlist += [("no-final-2atk", 2, '{"rename", "mkdir"}', True, False), ("no-dotdot-2atk", 2, '{"rename", "exchange", "mkdir"}', False, True)]
    ce_ingredients = []
    for name, ma, kinds, dd, fin in vlist:
        r, tr = tlc_variant(name, ma, kinds, dd, fin, ops="const_OpsResolve", timeout=900)
        ing = ingredients_from_ce(tr) if tr else None
        variants[name] = dict(violated=r["violated"], distinct=r["distinct"], ingredients=ing)
        if ing:
            ce_ingredients.append(ing)
    # ---------------- (G)+(V) boundary sweep on the real library
    all_cases = []
    # one batch of unattacked, traced baseline runs tells how many relevant syscalls each call makes
    bl_cases, bl_index = [], []
    for tname, nodes in race.RACE_TREES.items():
        paths = race.LOOKUP_PATHS[tname]
        for path in paths:
            for call in race.lookup_calls(path):
                for bname, feat in (("emulated", {"openat2": False}), ("kernel", {"openat2": True})):
                    bl_cases.append(dict(id="base-%d" % len(bl_cases), tree=nodes, feat=feat, trace=True, raw=False, calls=[call]))
                    bl_index.append((tname, nodes, call, bname, feat))
    order = sorted(range(len(bl_cases)), key=lambda i: json.dumps(bl_cases[i]["feat"]))
    bl_res = run_pv([bl_cases[i] for i in order], jobs=12, tag="C02b")
    for i, br in zip(order, bl_res):
        tname, nodes, call, bname, feat = bl_index[i]
        ks = [e.get("k", -1) for e in br.get("events", []) if e.get("ev") == "sys" and e.get("rel")]
        n_rel = max(ks) + 1 if ks else 0
        focus = set()
        for e in br.get("events", []):
            if e.get("ev") == "sys" and e.get("rel"):
                focus.add(e.get("dfd_id"))
                if e.get("r_id"):
                    focus.add(e.get("r_id"))
        acts = race.repertoire(nodes, focus=focus)
        stats["baseline_relevant_syscalls_" + bname] += n_rel
        all_cases += race.make_sweep(tname, nodes, call, feat, n_rel, acts, pairs=False)
        if not quick:
            # flip-flop pairs (action at k1, its inverse at k2 > k1) for the priority actions; bounded per call
            pa = [a for a in acts if a.get("prio")]
            pairs = [c for c in race.make_sweep(tname, nodes, call, feat, n_rel, pa, pairs=True, rnd=rnd, max_pairs=600) if len(c["meta"]["ks"]) == 2]
            all_cases += pairs
    # the mirror tree (always run in full: one action, every boundary)
    mcalls = [c for path in race.MIRROR_PATHS for c in race.lookup_calls(path)]
    mirror_cases = []
    for bname, feat in (("emulated", {"openat2": False}), ("kernel", {"openat2": True})):
        counts, _, _ = race.baseline_counts(race.MIRROR_TREE, mcalls, feat, jobs=8)
        for call, n_rel in zip(mcalls, counts):
            mirror_cases += race.make_sweep("mirror", race.MIRROR_TREE, call, feat, n_rel, race.MIRROR_ACTS, pairs=False)
    stats["mirror_cases"] = len(mirror_cases)
    stats["sweep_space"] = len(all_cases) + len(mirror_cases)
    if quick:
        # every placement of the priority actions (moving a directory of the walk out of the root,
        # exchanging it with a staged directory / escaping link); a seeded sample of the rest
        prio = [c for c in all_cases if c["meta"].get("prio")]
        pid_ = {c["id"] for c in prio}
        rest = [c for c in all_cases if c["id"] not in pid_]
        rnd.shuffle(rest)
        rnd.shuffle(prio)
        all_cases = prio[:3000] + rest[:400]
        stats["prio_space"] = len(prio)
    all_cases += mirror_cases
    # keep shards homogeneous in feature set
    all_cases.sort(key=lambda c: json.dumps(c["feat"]))
    results = run_pv(all_cases, jobs=12, tag="C02")
    race.outcome_stats(results, stats)
    race.judge(("C02",), all_cases, results, verdicts, stats, samples)
    # action-level conformance of the real call sequences with Lookup.tla (model drift metric)
    conf = lookup_conformance(all_cases, results, max_cases=300 if quick else None, rnd=rnd)
    for d in conf["drift"][:10]:
        print("MODEL-DRIFT (not an alarm): real trace of %s is not a behaviour of Lookup.tla; first unmatched event #%s/%s: %s" % (d.get("case"), d.get("at_event"), d.get("of"), json.dumps(d.get("first_unmatched"))[:200]))
    wall = time.time() - t0
    rc = v.finish()
    distinct = len({(c["meta"]["tree"], json.dumps(c["meta"]["call"], sort_keys=True), json.dumps(c["meta"]["acts"], sort_keys=True), tuple(c["meta"]["ks"]), json.dumps(c["feat"])) for c in all_cases})
    cov = dict(states=base["distinct"], transitions=base["states"], traces_validated_against_impl=stats["traces"], samples=samples,
               evaluations=len(all_cases), distinct_nontrivial=min(distinct, stats["attack_fired"]),
               rule="sweep case = (race tree, lookup call, backend, attacker action(s), boundary index(es)); non-trivial = the attacker's mutation actually took effect (kernel returned 0) during the call",
               exhaustive=bool(base["complete"]) and not quick, tlc_base_complete=base["complete"], tlc_base_violated=base["violated"],
               mechanism_removal_variants=variants, sweep_space=stats["sweep_space"], attack_fired=stats["attack_fired"],
               lookup_model_conformance=dict(validated=conf["validated"], accepted=conf["accepted"], drift=len(conf["drift"]), drift_samples=conf["drift"][:3], search_states=conf["states"]),
               trace_events=stats["events"], trace_states=stats["trace_states"], kernel_model_mismatches=stats["kmm"], kmm_samples=stats.get("kmm_samples", []),
               outcomes={k: n for k, n in stats.items() if k.startswith("outcome_")}, abnormal=stats["abnormal"], build_s=round(build_s, 1), notes=v.notes)
    write_evidence("C02", tier_, "model_checking", cov, ASSUME, wall, len(v.violations))
    return rc
