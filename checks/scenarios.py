"""A catalogue of operation scenarios (tree + calls) exercising every public operation on success
and error paths, through the Rust API and the C ABI.  Used by C05, C10, C11 (and as ingredients of
fault sweeps)."""
from lib.common import O
from checks.race import N, P, R, OUT

OPS_TREE = [N(5, R, "a", "dir"), N(6, 5, "sub", "dir"), N(7, 6, "f", "file"), N(8, R, "f", "file"), N(9, R, "la", "lnk", "a"),
            N(10, R, "lf", "lnk", "f"), N(11, R, "dang", "lnk", "nonexist"), N(12, 5, "esc", "lnk", "../../out"),
            N(13, R, "p", "fifo"), N(14, R, "d_empty", "dir"), N(15, R, "d_full", "dir"), N(16, 15, "x", "file"),
            N(17, 15, "y", "dir"), N(18, 17, "z", "file"), N(19, 15, "l", "lnk", "../f"), N(20, R, "labs", "lnk", "/a/sub")]

RD = O["RDONLY"] | O["NONBLOCK"]


def scenarios():
    S = []

    def add(name, calls):
        S.append(dict(name=name, tree=OPS_TREE, calls=calls))

    for api in ("rust", "c"):
        A = dict(api=api)
        add("lookup-ok-" + api, [dict(op="resolve", path="a/sub/f", **A), dict(op="resolve", path="la/sub/../sub/f", **A),
                                 dict(op="resolve", path="la", nofollow=True, **A), dict(op="resolve", path="labs/f", **A),
                                 dict(op="resolve", path="/a/../a/./sub//f", **A)])
        # spellings that end at (or are clamped at) the root: the handle handed back is the walk's own copy of the root
        add("lookup-root-" + api, [dict(op="resolve", path="..", **A), dict(op="resolve", path="a/../..", **A), dict(op="resolve", path="/", **A),
                                   dict(op="resolve", path=".", nofollow=True, **A), dict(op="resolve", path="a/esc", **A), dict(op="resolve", path="a/sub/../../../..", nofollow=True, **A)])
        add("lookup-err-" + api, [dict(op="resolve", path="nonexist", **A), dict(op="resolve", path="a/esc/secret", **A),
                                  dict(op="resolve", path="f/x", **A), dict(op="resolve", path="dang", **A)])
        add("open-" + api, [dict(op="open", path="f", oflags=RD, **A), dict(op="open", path="a", oflags=RD | O["DIRECTORY"], **A),
                            dict(op="open", path="la", oflags=O["PATH"] | O["NOFOLLOW"], **A), dict(op="open", path="lf", oflags=RD | O["NOFOLLOW"], **A),
                            dict(op="open", path="f", oflags=O["RDWR"] | O["APPEND"], **A), dict(op="open", path="p", oflags=RD, **A),
                            dict(op="open", path="f", oflags=O["CREAT"] | O["RDWR"], **A)])
        # the caller passes one of the flags the library adds itself (O_CLOEXEC, O_NOCTTY): the other one must still be added
        NC, CE = O["NOCTTY"], O["CLOEXEC"]
        add("open-callerflags-" + api, [dict(op="open", path="f", oflags=RD | NC, **A), dict(op="open", path="f", oflags=RD | CE, **A), dict(op="open", path="a/sub/f", oflags=O["RDWR"] | NC | CE, **A),
                                        dict(op="open", path="la", oflags=RD | O["DIRECTORY"] | CE, **A), dict(op="open", path="f", oflags=O["PATH"] | CE, **A),
                                        dict(op="create_file", path="a/cfn", oflags=O["RDWR"] | NC, mode=0o600, **A), dict(op="create_file", path="a/cfc", oflags=O["RDWR"] | CE, mode=0o600, **A),
                                        dict(op="resolve", path="f", **A), dict(op="reopen", of=7, oflags=RD | NC, **A), dict(op="reopen", of=7, oflags=O["RDWR"] | CE, **A)])
        add("proc-callerflags-" + api, ([dict(op="proc_new")] if api == "rust" else []) + [
            dict(op="proc_open", base="self", cbase=0x091D5E1F, path="status", oflags=RD | O["NOFOLLOW"] | NC, **A), dict(op="proc_open", base="self", cbase=0x091D5E1F, path="status", oflags=RD | O["NOFOLLOW"] | CE, **A),
            dict(op="proc_open" if api == "c" else "proc_open_follow", base="self", cbase=0x091D5E1F, path="exe", oflags=O["PATH"] | CE, **A),
            dict(op="proc_open" if api == "c" else "proc_open_follow", base="self", cbase=0x091D5E1F, path="cwd", oflags=RD | O["DIRECTORY"] | NC, **A)])
        add("readlink-" + api, [dict(op="readlink", path="la", **A), dict(op="readlink", path="f", **A), dict(op="readlink", path="d_full/l", **A)])
        add("create-" + api, [dict(op="create", path="a/newf", kind="file", mode=0o644, **A), dict(op="create", path="a/newd", kind="dir", mode=0o755, **A),
                              dict(op="create", path="a/newl", kind="lnk", target="../f", **A), dict(op="create", path="a/newh", kind="hard", target="f", **A),
                              dict(op="create", path="a/newp", kind="fifo", mode=0o600, **A), dict(op="create", path="f", kind="file", mode=0o644, **A),
                              dict(op="create", path="la/new2", kind="dir", mode=0o700, **A), dict(op="create", path="nonexist/x", kind="file", mode=0o644, **A),
                              dict(op="create", path="a/trail/", kind="dir", mode=0o755, **A)])
        add("create_file-" + api, [dict(op="create_file", path="a/cf", oflags=O["RDWR"], mode=0o600, **A), dict(op="create_file", path="f", oflags=O["WRONLY"], mode=0o600, **A),
                                   dict(op="create_file", path="dang", oflags=O["RDWR"], mode=0o600, **A), dict(op="create_file", path="a/cx", oflags=O["RDWR"] | O["EXCL"], mode=0o600, **A),
                                   dict(op="create_file", path="f", oflags=O["RDWR"] | O["EXCL"], mode=0o600, **A), dict(op="create_file", path="a", oflags=O["RDWR"], mode=0o600, **A)])
        add("mkdir_all-" + api, [dict(op="mkdir_all", path="a/sub/x/y/z", mode=0o755, **A), dict(op="mkdir_all", path="la/q/r", mode=0o711, **A),
                                 dict(op="mkdir_all", path="a/sub", mode=0o755, **A), dict(op="mkdir_all", path="f/x", mode=0o755, **A),
                                 dict(op="mkdir_all", path="dang/x", mode=0o755, **A), dict(op="mkdir_all", path="n1/../n2", mode=0o755, **A),
                                 dict(op="mkdir_all", path="a/m", mode=0o4755, **A)])
        add("remove-" + api, [dict(op="remove_file", path="f", **A), dict(op="remove_file", path="a", **A), dict(op="remove_dir", path="d_empty", **A),
                              dict(op="remove_dir", path="d_full", **A), dict(op="remove_file", path="la", **A), dict(op="remove_file", path="nonexist", **A),
                              dict(op="remove_dir", path="a/sub/", **A)])
        add("remove_all-" + api, [dict(op="remove_all", path="d_full", **A), dict(op="remove_all", path="lf", **A), dict(op="remove_all", path="nonexist", **A),
                                  dict(op="remove_all", path="a", **A), dict(op="remove_all", path="p", **A)])
        add("rename-" + api, [dict(op="rename", src="f", dst="a/g", flags=0, **A), dict(op="rename", src="a", dst="b", flags=0, **A),
                              dict(op="rename", src="la", dst="lf", flags=2, **A), dict(op="rename", src="b", dst="la", flags=1, **A),
                              dict(op="rename", src="nonexist", dst="q", flags=0, **A), dict(op="rename", src="b/sub", dst="d_full/y", flags=0, **A)])
        add("reopen-" + api, [dict(op="resolve", path="f", **A), dict(op="reopen", of=0, oflags=RD, **A), dict(op="reopen", of=0, oflags=O["RDWR"], **A),
                              dict(op="resolve", path="la", nofollow=True, **A), dict(op="reopen", of=3, oflags=RD, **A),
                              dict(op="resolve", path="a", **A), dict(op="reopen", of=5, oflags=RD | O["DIRECTORY"], **A), dict(op="reopen", of=5, oflags=O["WRONLY"], **A)])
        add("proc-" + api, ([dict(op="proc_new")] if api == "rust" else []) + [dict(op="proc_open", base="self", cbase=0x091D5E1F, path="status", oflags=RD | O["NOFOLLOW"], **A),
                            dict(op="proc_open" if api == "c" else "proc_open_follow", base="self", cbase=0x091D5E1F, path="exe", oflags=O["PATH"], **A),
                            dict(op="proc_readlink", base="self", cbase=0x091D5E1F, path="exe", **A),
                            dict(op="proc_open", base="thread-self", cbase=0x3EAD5E1F, path="fd", oflags=RD | O["DIRECTORY"] | O["NOFOLLOW"], **A),
                            dict(op="proc_open", base="root", cbase=0x5001FFFF, path="sys/fs/protected_symlinks", oflags=RD | O["NOFOLLOW"], **A),
                            dict(op="proc_open", base="self", cbase=0x091D5E1F, path="nonexist", oflags=RD | O["NOFOLLOW"], **A),
                            dict(op="proc_open", base="self", cbase=0x091D5E1F, path="root/etc", oflags=RD | O["NOFOLLOW"], **A),
                            dict(op="proc_readlink", base="self", cbase=0x091D5E1F, path="status", **A)]
                           # the Rust API lets a caller pass O_NOFOLLOW to open_follow: the trailing link must then not be followed
                           + ([dict(op="proc_open_follow", base="self", path="exe", oflags=O["PATH"] | O["NOFOLLOW"], **A), dict(op="proc_open_follow", base="self", path="cwd", oflags=RD | O["NOFOLLOW"], **A)] if api == "rust" else []))
    # C ABI given descriptor numbers that are not descriptors (C17 argument classes; for C05 the point is
    # that no system call may be issued against AT_FDCWD / the current directory on their behalf)
    for bad in (-100, -1, -9, -2147483648):
        add("badfd-c%d" % bad, [dict(op="resolve", api="c", path="a/sub/f", rootfd=bad), dict(op="open", api="c", path="f", oflags=RD, rootfd=bad),
                                 dict(op="create", api="c", path="zz", kind="dir", mode=0o755, rootfd=bad), dict(op="mkdir_all", api="c", path="q/r", mode=0o755, rootfd=bad),
                                 dict(op="remove_all", api="c", path="d_full", rootfd=bad), dict(op="rename", api="c", src="f", dst="g", flags=0, rootfd=bad),
                                 dict(op="readlink", api="c", path="la", rootfd=bad), dict(op="create_file", api="c", path="cf", oflags=O["RDWR"], mode=0o600, rootfd=bad)])
    add("clone-rust", [dict(op="try_clone_root"), dict(op="resolve", path="a"), dict(op="try_clone", of=1)])
    add("open_root-c", [dict(op="open_root", api="c", path="/proc/self/cwd/"), dict(op="open_root", api="c", path="/nonexistent-dir")])
    return S


FEATS = [("kernel", {"openat2": True}), ("emulated", {"openat2": False}), ("oldmount", {"openat2": False, "newmount": False}),
         ("nofsopen", {"openat2": True, "fsopen": False})]
