"""C12 / C13: mkdir_all and remove_all.
 static: TLC (RootOps.tla, sequential models DoMkdirAll / DoRemoveAll) generates every path
   spelling of the bounded instance with its expected outcome; each is executed (traced) on both
   backends; TLC (TraceFS.tla PostViolations) judges the real initial/final snapshots.
 concurrent: two library processes under one ptrace supervisor, every schedule with up to two
   preemptions at relevant-syscall granularity (quick: seeded sample); same postconditions plus
   'all callers succeed'."""
import json, time, random, collections
from lib.common import *
from lib.project import *
from checks import race, rootops_static

N = race.N
R = race.R
CONC_TREES = {
    "mk": [N(5, R, "a", "dir"), N(6, 5, "b", "dir"), N(7, R, "la", "lnk", "a/b"), N(8, R, "f", "file")],
    "rm": [N(5, R, "a", "dir"), N(6, 5, "b", "dir"), N(7, 6, "c", "dir"), N(8, 7, "f1", "file"), N(9, 6, "f2", "file"), N(10, 5, "l_out", "lnk", "../../out"),
           N(11, 5, "l_e", "lnk", "../e"), N(12, R, "e", "dir"), N(13, 12, "keep", "file"), N(14, 6, "d2", "dir"), N(15, 14, "g", "file")],
}
CONC_CALLS = {
    "C12": [("mk", [dict(op="mkdir_all", path="a/b/x/y/z", mode=0o755), dict(op="mkdir_all", path="a/b/x/y/z", mode=0o755)]),
            ("mk", [dict(op="mkdir_all", path="la/x/y", mode=0o755), dict(op="mkdir_all", path="a/b/x/w", mode=0o755)]),
            ("mk", [dict(op="mkdir_all", path="n1/n2/n3", mode=0o711), dict(op="mkdir_all", path="n1/n2", mode=0o711)]),
            ("mk", [dict(op="mkdir_all", path="a/../a/b/q/r", mode=0o700), dict(op="mkdir_all", path="a/b/q", mode=0o755)])],
    "C13": [("rm", [dict(op="remove_all", path="a"), dict(op="remove_all", path="a")]),
            ("rm", [dict(op="remove_all", path="a/b"), dict(op="remove_all", path="a/b")]),
            ("rm", [dict(op="remove_all", path="a/b/c"), dict(op="remove_all", path="a/b/c")])],
}


def static_cases(prop, rnd, quick):
    gen = run_tlc("MC_RootOps.tla", "MC_C12_gen.cfg", workers=8, timeout=1800)
    design = run_tlc("MC_RootOps.tla", "MC_C12_design.cfg", workers=8, timeout=1800)
    trees, gcases = {}, []
    for tag, body in gen["prints"]:
        if tag == "TREES":
            for t in body:
                trees[t["name"]] = t
        elif tag == "CASE":
            gcases.append(body)
    want = "mkdir_all" if prop == "C12" else "remove_all"
    gcases = [c for c in gcases if c["op"]["op"] == want]
    total = len(gcases)
    if quick and len(gcases) > 500:
        rnd.shuffle(gcases)
        gcases = gcases[:500]
    cases = []
    for ci, c in enumerate(gcases):
        nodes = [node_to_pv(n) for n in trees[c["tree"]]["nodes"]]
        path = "/".join(c["path"])
        call = dict(op=want, path=path, mode=0o751) if want == "mkdir_all" else dict(op=want, path=path)
        for bname, feat in rootops_static.FEATS:
            cases.append(dict(id="static|%d|%s" % (ci, bname), tree=nodes, feat=feat, trace=True, raw=False, calls=[call], post=True, mkmode=0o751,
                              meta=dict(kind="static", tree=c["tree"], call=call, backend=bname, expect=c["expect"], model_post=c["post"])))
    return cases, gen, design, total


def conc_cases(prop, rnd, quick):
    cases, space = [], 0
    bl, idx = [], []
    for tname, calls in CONC_CALLS[prop]:
        for bname, feat in rootops_static.FEATS:
            for pi, c in enumerate(calls):
                bl.append(dict(id="alone|%s|%d|%s" % (tname, pi, bname), tree=CONC_TREES[tname], feat=feat, trace=True, raw=False, calls=[c]))
                idx.append((tname, bname, json.dumps(calls), pi))
    res = run_pv(sorted(bl, key=lambda c: json.dumps(c["feat"])), jobs=8, tag=prop + "b")
    by_id = {r["id"]: r for r in res}
    for tname, calls in CONC_CALLS[prop]:
        for bname, feat in rootops_static.FEATS:
            n, ok = [], []
            for pi in range(2):
                r = by_id["alone|%s|%d|%s" % (tname, pi, bname)]
                ks = [e.get("k", -1) for e in r.get("events", []) if e.get("ev") == "sys" and e.get("rel")]
                n.append(max(ks) + 1 if ks else 0)
                ok.append(bool(r["out"][0]["results"][0].get("ok")))
            scheds = []
            # up to two preemptions: p runs k steps, q runs m steps, then p to the end, then q
            for first in (0, 1):
                other = 1 - first
                for k in range(0, n[first] + 1):
                    for m in range(0, n[other] + 1, 1):
                        scheds.append([first] * k + [other] * m)
            space += len(scheds)
            if quick and len(scheds) > 120:
                rnd.shuffle(scheds)
                scheds = scheds[:120]
            for si, order in enumerate(scheds):
                cs = [dict(c, proc=pi) for pi, c in enumerate(calls)]
                cases.append(dict(id="conc|%s|%s|%s|%d" % (tname, calls[0]["path"], bname, si), tree=CONC_TREES[tname], feat=feat, trace=True, raw=False, procs=2,
                                  calls=cs, order=order + [first] * 400, post=True, expectall=all(ok), mkmode=calls[0].get("mode", 0o755),
                                  meta=dict(kind="concurrent", tree=tname, calls=calls, backend=bname, order_prefix=order, alone_ok=ok)))
    return cases, space


def run(prop, tier_):
    t0 = time.time()
    quick = tier_ == "quick"
    rnd = random.Random(seed())
    verdicts = collections.defaultdict(lambda: Verdict("X"))
    v = verdicts[prop] = Verdict(prop)
    build_s = build_harness()
    scases, gen, design, total = static_cases(prop, rnd, quick)
    ccases, space = conc_cases(prop, rnd, quick)
    # mixed modes differ between callers in one scenario: mode postcondition only when equal
    for c in ccases:
        modes = {x.get("mode") for x in c["meta"]["calls"]}
        if len(modes) > 1:
            c["mkmode"] = -1
    acases = []
    if prop == "C13":
        # "never follows links" under an attacker: every placement of the priority attacker actions
        # (swap the victim for an escaping symlink / staged directory, move it out) before every
        # relevant syscall of remove_all; judged with the containment predicate of TraceFS
        for tname, path in (("chain", "a/b"), ("chain", "a"), ("links", "la/c"), ("links", "a/b")):
            nodes = race.RACE_TREES[tname]
            call = dict(op="remove_all", path=path)
            for bname, feat in rootops_static.FEATS:
                counts, bres, _ = race.baseline_counts(nodes, [call], feat, jobs=1)
                focus = set()
                for e in bres[0].get("events", []):
                    if e.get("ev") == "sys" and e.get("rel"):
                        focus.add(e.get("dfd_id"))
                        if e.get("r_id"):
                            focus.add(e.get("r_id"))
                acts = [a for a in race.repertoire(nodes, focus=focus) if a.get("prio")]
                acases += race.make_sweep(tname, nodes, call, feat, counts[0], acts, pairs=False)
        if quick and len(acases) > 1500:
            rnd.shuffle(acases)
            acases = acases[:1500]
        for c in acases:
            c["meta"]["kind"] = "attacked"
    cases = scases + ccases + acases
    cases.sort(key=lambda c: json.dumps(c["feat"]))
    results = run_pv(cases, jobs=12, tag=prop)
    stats, samples = collections.Counter(), []
    # sequential expectation of the model vs the real outcome (evidence; disagreement with a failed
    # postcondition is already a violation, otherwise it is reported as model drift)
    for c, r in zip(cases, results):
        if r.get("status") != "ok":
            stats["abnormal"] += 1
            v.violation(dict(check="mkrm", what="abnormal termination", case=c["id"]), "%s: run ended abnormally: %s %s" % (prop, r.get("status"), c["id"]), c)
            continue
        if c["meta"].get("kind") == "static":
            got = lib_outcome(r["out"][0]["results"][0])
            exp = c["meta"]["expect"]
            if bool(exp.get("ok")) != (got[0] == "ok") or (not exp.get("ok") and got[1] != exp.get("err")):
                stats["model_disagrees"] += 1
                if stats["model_disagrees"] <= 6:
                    v.notes.append("sequential model vs library: %s [%s] model=%s library=%s" % (c["meta"]["call"], c["meta"]["backend"], exp, got))
            else:
                stats["model_agrees"] += 1
    race.judge((prop, "C03") if prop == "C13" else (prop,), cases, results, verdicts, stats, samples)
    if prop == "C13":
        for sig, desc, rep in verdicts["C03"].violations:
            if sig.get("op") == "remove_all":
                v.violation(dict(sig, check="remove_all-follows-or-escapes"), desc.replace("C03:", "C13 (remove_all acted outside the named subtree / followed a link):"), rep)
    rc = v.finish()
    cov = dict(states=max(gen["distinct"], 1) + stats["trace_states"], transitions=max(gen["states"], 1) + stats["events"], traces_validated_against_impl=stats["traces"],
               samples=samples, evaluations=len(cases), distinct_nontrivial=len({json.dumps(c["meta"], sort_keys=True) for c in cases}),
               rule="static case = (path spelling generated by TLC, backend); concurrent case = (scenario of two calls, backend, schedule prefix with up to two preemptions at relevant-syscall granularity); all distinct by construction; non-trivial = all (every path has symlink/dot/missing components or a second process)",
               exhaustive=not quick, static_generated=total, static_executed=len(scases), schedule_space=space, schedules_executed=len(ccases),
               design_invariant_violated=design["violated"], model_agrees=stats["model_agrees"], model_disagrees=stats["model_disagrees"],
               kernel_model_mismatches=stats["kmm"], kmm_samples=stats.get("kmm_samples", [])[:3], notes=v.notes[:8], build_s=round(build_s, 1))
    return rc, cov, time.time() - t0, v


ASSUME = ["two library processes are single-threaded workers stopped at every relevant syscall by the ptrace supervisor; schedules with up to two preemptions (quick: seeded sample)",
          "umask 022 in the workers; setgid inheritance not exercised (tmpfs directories without setgid)",
          "the sequential models DoMkdirAll/DoRemoveAll use the openat2-style partial lookup; equivalence with the emulated partial lookup is C04"]
