"""C12 / C13: mkdir_all and remove_all.
 static: TLC (RootOps.tla, sequential models DoMkdirAll / DoRemoveAll) generates every path
   spelling of the bounded instance with its expected outcome; each is executed (traced) on both
   backends; TLC (TraceFS.tla PostViolations) judges the real initial/final snapshots.
 concurrent: two library processes under one ptrace supervisor, every schedule with up to two
   preemptions at relevant-syscall granularity (quick: seeded sample); same postconditions plus
   'all callers succeed'."""
import json, time, random, collections
from lib.common import *
from lib.project import *
from checks import race, rootops_static

N = race.N
R = race.R
CONC_TREES = {
    "mk": [N(5, R, "a", "dir"), N(6, 5, "b", "dir"), N(7, R, "la", "lnk", "a/b"), N(8, R, "f", "file")],
    "mkdot": [N(5, R, "a", "dir"), N(6, 5, "b", "dir"), N(7, R, "la", "lnk", "a/b"), N(8, R, "f", "file"), N(9, R, "ld", "lnk", "./a/./b"), N(10, 5, "up", "lnk", "../a/b/.")],
    "rm": [N(5, R, "a", "dir"), N(6, 5, "b", "dir"), N(7, 6, "c", "dir"), N(8, 7, "f1", "file"), N(9, 6, "f2", "file"), N(10, 5, "l_out", "lnk", "../../out"),
           N(11, 5, "l_e", "lnk", "../e"), N(12, R, "e", "dir"), N(13, 12, "keep", "file"), N(14, 6, "d2", "dir"), N(15, 14, "g", "file")],
}
CONC_CALLS = {
    "C12": [("mk", [dict(op="mkdir_all", path="a/b/x/y/z", mode=0o755), dict(op="mkdir_all", path="a/b/x/y/z", mode=0o755)]),
            ("mk", [dict(op="mkdir_all", path="la/x/y", mode=0o755), dict(op="mkdir_all", path="a/b/x/w", mode=0o755)]),
            ("mk", [dict(op="mkdir_all", path="n1/n2/n3", mode=0o711), dict(op="mkdir_all", path="n1/n2", mode=0o711)]),
            ("mk", [dict(op="mkdir_all", path="a/../a/b/q/r", mode=0o700), dict(op="mkdir_all", path="a/b/q", mode=0o755)]),
            ("mkdot", [dict(op="mkdir_all", path="ld/x/y", mode=0o755), dict(op="mkdir_all", path="a/up/x/z", mode=0o755)])],
    "C13": [("rm", [dict(op="remove_all", path="a"), dict(op="remove_all", path="a")]),
            ("rm", [dict(op="remove_all", path="a/b"), dict(op="remove_all", path="a/b")]),
            ("rm", [dict(op="remove_all", path="a/b/c"), dict(op="remove_all", path="a/b/c")])],
}


MK2_SCENARIOS = {   # Mkdir2.tla scenario -> (tree, calls), mirrored in spec/MC_Mkdir2.tla
    "S1": ("mk", [dict(op="mkdir_all", path="a/b/x/y/z", mode=0o755), dict(op="mkdir_all", path="a/b/x/y/z", mode=0o755)]),
    "S2": ("mk", [dict(op="mkdir_all", path="la/x/y", mode=0o755), dict(op="mkdir_all", path="a/b/x/w", mode=0o755)]),
    "S3": ("mk", [dict(op="mkdir_all", path="n1/n2/n3", mode=0o711), dict(op="mkdir_all", path="n1/n2", mode=0o711)]),
    "S4": ("mk", [dict(op="mkdir_all", path="a/../a/b/q/r", mode=0o700), dict(op="mkdir_all", path="a/b/q", mode=0o755)]),
    "S7": ("mkdot", [dict(op="mkdir_all", path="ld/x/y", mode=0o755), dict(op="mkdir_all", path="a/up/x/z", mode=0o755)]),
}
REAL_STEPS = {"try": 1, "reopen": 2, "mk": 1, "open": 1}   # relevant syscalls of the implementation per model action


def tlc_mkdir2(scn, tolerate=True):
    """model-check Mkdir2.tla for one scenario, dump the state graph, and derive one schedule per
    transition of the graph (shortest path to the transition's source, then the transition)"""
    import re
    cfg = os.path.join(workdir(), "mk2-%s-%s.cfg" % (scn, tolerate))
    with open(cfg, "w") as f:
        f.write("SPECIFICATION Spec\nCONSTANTS\n  Procs = {\"p1\", \"p2\"}\n  Scenario <- %s\n  MaxIno = 24\n  KMaxLinks = 40\n  TolerateEEXIST = %s\n  MaxAttack = 0\n  RefuseDotDotTail = TRUE\n  AtkMkdirNames <- const_NoNames\n"
                "INVARIANTS TypeOK AllSucceed HandleIsResolution OnlyNewDirs\nCHECK_DEADLOCK FALSE\n" % (scn, "TRUE" if tolerate else "FALSE"))
    dump = os.path.join(workdir(), "mk2-%s" % scn)
    r = run_tlc("MC_Mkdir2.tla", cfg, workers=1, timeout=900, extra=["-dump", "dot,actionlabels", dump])
    scheds = []
    if tolerate and r["complete"] and os.path.exists(dump + ".dot"):
        nodes, edges = {}, []
        for line in open(dump + ".dot"):
            m = re.match(r'^(-?\d+) \[label="(.*)"', line)
            if m:
                lab = m.group(2)
                who = re.search(r'who = \\"(\w*)\\"', lab)
                pcs = dict(re.findall(r'(p\d) \|-> \\"(\w+)\\"', re.search(r'pc = \[(.*?)\]', lab).group(1)))
                nodes[m.group(1)] = (who.group(1) if who else "", pcs)
                continue
            m = re.match(r'^(-?\d+) -> (-?\d+)', line)
            if m and m.group(1) != m.group(2):
                edges.append((m.group(1), m.group(2)))
        init = next(n for n, (w, pcs) in nodes.items() if w == "")
        adj = collections.defaultdict(list)
        for a, b in edges:
            adj[a].append(b)
        # BFS tree from init: path of (mover, action) to every node
        prev = {init: None}
        q = [init]
        while q:
            a = q.pop(0)
            for b in adj[a]:
                if b not in prev:
                    prev[b] = a
                    q.append(b)

        def steps_to(n):
            out = []
            while prev[n] is not None:
                a = prev[n]
                mover = nodes[n][0]
                out.append((mover, nodes[a][1][mover]))
                n = a
            return out[::-1]
        seen = set()
        for a, b in edges:
            if a not in prev:
                continue
            mover = nodes[b][0]
            st = steps_to(a) + [(mover, nodes[a][1][mover])]
            order = []
            for mv, act in st:
                order += [int(mv[1:]) - 1] * REAL_STEPS.get(act, 1)
            t = tuple(order)
            if t not in seen:
                seen.add(t)
                scheds.append(order)
    return r, scheds


RM2_SCENARIOS = {   # Remove2.tla scenario -> remove_all path on CONC_TREES["rm2"] (mirrors spec/MC_Remove2.tla)
    "RA": "a", "RB": "a/b",
}
REAL_STEPS_RM = {"unlink": 1, "rmdir": 1, "opendir": 1, "scan": 3, "iter": 0}


def tlc_remove2(scn, ignore=True, nofollow=True, attack=0, dump=False, anyorder=False, enotdir=False, invs="TypeOK AllSucceed Gone OnlySubtreeGone WholeSubtreeGone OutsideUntouched OkMeansGone"):
    import re
    cfg = os.path.join(workdir(), "rm2-%s-%s-%s-%d-%s-%s.cfg" % (scn, ignore, nofollow, attack, anyorder, enotdir))
    with open(cfg, "w") as f:
        f.write("SPECIFICATION Spec\nCONSTANTS\n  Procs = {\"p1\", \"p2\"}\n  Scenario <- %s\n  MaxIno = 15\n  IgnoreENOENT = %s\n  NoFollowOnOpen = %s\n  MaxAttack = %d\n  AnyOrder = %s\n  IgnoreENOTDIROnOpen = %s\n"
                "INVARIANTS %s\nCHECK_DEADLOCK FALSE\n" % (scn, "TRUE" if ignore else "FALSE", "TRUE" if nofollow else "FALSE", attack, "TRUE" if anyorder else "FALSE", "TRUE" if enotdir else "FALSE", invs))
    dfile = os.path.join(workdir(), "rm2-%s" % scn)
    r = run_tlc("MC_Remove2.tla", cfg, workers=1 if dump else 8, timeout=900, extra=["-dump", "dot,actionlabels", dfile] if dump else None)
    scheds = []
    if dump and r["complete"] and os.path.exists(dfile + ".dot"):
        nodes, edges = {}, []
        for line in open(dfile + ".dot"):
            m = re.match(r'^(-?\d+) \[label="(.*)"', line)
            if m:
                lab = m.group(2)
                who = re.search(r'who = \\"(\w*)\\"', lab)
                # pc of the top frame of every process
                tops = {}
                for pm in re.finditer(r'(p\d) \|->\s*<<(.*?)>>(?=,\s*p\d \|->|\s*\])', re.search(r'stack = \[(.*?)\]\\n/\\\\ ', lab + "\\n/\\\\ ", re.S).group(1), re.S):
                    pcs = re.findall(r'pc \|-> \\"(\w+)\\"', pm.group(2))
                    tops[pm.group(1)] = pcs[-1] if pcs else "done"
                nodes[m.group(1)] = (who.group(1) if who else "", tops)
                continue
            m = re.match(r'^(-?\d+) -> (-?\d+)', line)
            if m and m.group(1) != m.group(2):
                edges.append((m.group(1), m.group(2)))
        init = next((n for n, (w, t) in nodes.items() if w == ""), None)
        adj = collections.defaultdict(list)
        for a, b in edges:
            adj[a].append(b)
        prev = {init: None}
        q = [init]
        while q:
            a = q.pop(0)
            for b in adj[a]:
                if b not in prev:
                    prev[b] = a
                    q.append(b)

        def steps_to(n):
            out = []
            while prev[n] is not None:
                a = prev[n]
                mover = nodes[n][0]
                out.append((mover, nodes[a][1].get(mover, "unlink")))
                n = a
            return out[::-1]
        seen = set()
        for a, b in edges:
            if a not in prev:
                continue
            mover = nodes[b][0]
            st = steps_to(a) + [(mover, nodes[a][1].get(mover, "unlink"))]
            order, started = [], set()
            for mv, act in st:
                if not mv.startswith("p"):
                    continue
                pi = int(mv[1:]) - 1
                if pi not in started:
                    started.add(pi)
                    order.append(pi)           # the in-root resolution of the parent directory
                order += [pi] * REAL_STEPS_RM.get(act, 1)
            t = tuple(order)
            if t not in seen:
                seen.add(t)
                scheds.append(order)
    return r, scheds


def static_cases(prop, rnd, quick):
    gen = run_tlc("MC_RootOps.tla", "MC_C12_gen.cfg", workers=8, timeout=1800)
    design = run_tlc("MC_RootOps.tla", "MC_C12_design.cfg", workers=8, timeout=1800)
    if prop == "C12":
        # the emulated partial lookup (SymlinkStack, Partial.tla) against the openat2-style one, for every path of the
        # instance; and the variant that keeps "." in the stack (what seeded change C04b does) must break it
        pe = run_tlc("MC_RootOps.tla", "MC_C12_partial.cfg", workers=8, timeout=1800)
        pk = run_tlc("MC_RootOps.tla", "MC_C12_partial_keepdot.cfg", workers=8, timeout=1800)
        static_cases.partial = dict(instances=pe["distinct"] // 2, complete=pe["complete"], violated=pe["violated"], variant_keep_dot_in_stack=pk["violated"])
    trees, gcases = {}, []
    for tag, body in gen["prints"]:
        if tag == "TREES":
            for t in body:
                trees[t["name"]] = t
        elif tag == "CASE":
            gcases.append(body)
    want = "mkdir_all" if prop == "C12" else "remove_all"
    gcases = [c for c in gcases if c["op"]["op"] == want]
    total = len(gcases)
    if quick and len(gcases) > 500:
        rnd.shuffle(gcases)
        gcases = gcases[:500]
    cases = []
    for ci, c in enumerate(gcases):
        nodes = [node_to_pv(n) for n in trees[c["tree"]]["nodes"]]
        path = "/".join(c["path"])
        # requested modes include ones without owner write/search (every created directory, not only the last, must get it)
        mode = (0o751, 0o555, 0o500, 0o1777)[ci % 4]
        call = dict(op=want, path=path, mode=mode) if want == "mkdir_all" else dict(op=want, path=path)
        if ci % 2:
            call["api"] = "c"      # every second spelling through the C ABI (pathrs_inroot_mkdir_all / _remove_all)
        for bname, feat in rootops_static.FEATS:
            cases.append(dict(id="static|%d|%s" % (ci, bname), tree=nodes, feat=feat, trace=True, raw=False, calls=[call], post=True, mkmode=mode,
                              meta=dict(kind="static", tree=c["tree"], call=call, backend=bname, expect=c["expect"], model_post=c["post"])))
    return cases, gen, design, total


def conc_cases(prop, rnd, quick):
    cases, space = [], 0
    bl, idx = [], []
    for tname, calls in CONC_CALLS[prop]:
        for bname, feat in rootops_static.FEATS:
            for pi, c in enumerate(calls):
                bl.append(dict(id="alone|%s|%d|%s" % (tname, pi, bname), tree=CONC_TREES[tname], feat=feat, trace=True, raw=False, calls=[c]))
                idx.append((tname, bname, json.dumps(calls), pi))
    res = run_pv(sorted(bl, key=lambda c: json.dumps(c["feat"])), jobs=8, tag=prop + "b")
    by_id = {r["id"]: r for r in res}
    for tname, calls in CONC_CALLS[prop]:
        for bname, feat in rootops_static.FEATS:
            n, ok = [], []
            for pi in range(2):
                r = by_id["alone|%s|%d|%s" % (tname, pi, bname)]
                ks = [e.get("k", -1) for e in r.get("events", []) if e.get("ev") == "sys" and e.get("rel")]
                n.append(max(ks) + 1 if ks else 0)
                ok.append(bool(r["out"][0]["results"][0].get("ok")))
            scheds = []
            # up to two preemptions: p runs k steps, q runs m steps, then p to the end, then q
            for first in (0, 1):
                other = 1 - first
                for k in range(0, n[first] + 1):
                    for m in range(0, n[other] + 1, 1):
                        scheds.append([first] * k + [other] * m)
            space += len(scheds)
            if quick and len(scheds) > 120:
                rnd.shuffle(scheds)
                scheds = scheds[:120]
            for si, order in enumerate(scheds):
                cs = [dict(c, proc=pi) for pi, c in enumerate(calls)]
                cases.append(dict(id="conc|%s|%s|%s|%d" % (tname, calls[0]["path"], bname, si), tree=CONC_TREES[tname], feat=feat, trace=True, raw=False, procs=2,
                                  calls=cs, order=order + [first] * 400, post=True, expectall=True,     # TLC proves AllSucceed for these scenarios (Mkdir2 / Remove2): "concurrent calls all succeed"
                                  mkmode=calls[0].get("mode", 0o755),
                                  meta=dict(kind="concurrent", tree=tname, calls=calls, backend=bname, order_prefix=order, alone_ok=ok)))
    if prop == "C12":
        # two callers that are DIFFERENT unprivileged users in a tree everybody may write (all directories 0777, umask 0,
        # requested mode 0777): permissions never say no, so the concurrency clause ("all succeed and return handles to the
        # same directories") holds as for one user -- each finds directories the other one created and owns
        t777 = [dict(id=90, p=2, n="", k="rootattr", mode=0o777)] + [dict(n, mode=0o777) if n["k"] == "dir" else n for n in CONC_TREES["mk"]]
        for calls in ([dict(op="mkdir_all", path="a/b/x/y/z", mode=0o777), dict(op="mkdir_all", path="a/b/x/y/z", mode=0o777)],
                      [dict(op="mkdir_all", path="n1/n2/n3/n4", mode=0o777), dict(op="mkdir_all", path="la/../../n1/n2/m", mode=0o777)]):
            calls = [dict(calls[0], euid=12345), dict(calls[1], euid=23456)]
            for bname, feat in rootops_static.FEATS:
                scheds = []
                for first in (0, 1):
                    for k in range(0, 26):
                        for m in range(0, 26, 2):
                            scheds.append([first] * k + [1 - first] * m)
                space += len(scheds)
                rnd.shuffle(scheds)
                for si, order in enumerate(scheds[:60 if quick else 400]):
                    cs = [dict(c, proc=pi) for pi, c in enumerate(calls)]
                    cases.append(dict(id="conc2u|%s|%s|%d" % (calls[0]["path"], bname, si), tree=t777, feat=feat, trace=True, raw=False, procs=2, umask=0,
                                      calls=cs, order=order + [order[0] if order else 0] * 400, post=True, expectall=True, mkmode=0o777,
                                      meta=dict(kind="concurrent", tree="mk777-two-users", calls=calls, backend=bname, order_prefix=order, alone_ok=[True, True])))
    # schedules derived from the state graph of the two-process model (one per transition), for the
    # backend the model describes (openat2-style partial lookup)
    tlc_info = {}
    if prop == "C12":
        for scn, (tname, calls) in MK2_SCENARIOS.items():
            r, scheds = tlc_mkdir2(scn)
            rv, _ = tlc_mkdir2(scn, tolerate=False)
            tlc_info[scn] = dict(states=r["distinct"], transitions=r["states"], complete=r["complete"], violated=r["violated"], schedules=len(scheds), variant_no_eexist_tolerance=rv["violated"])
            if quick and len(scheds) > 150:
                rnd.shuffle(scheds)
                scheds = scheds[:150]
            for si, order in enumerate(scheds):
                cs = [dict(c, proc=pi) for pi, c in enumerate(calls)]
                modes = {c.get("mode") for c in calls}
                cases.append(dict(id="tlcsched|%s|%d" % (scn, si), tree=CONC_TREES[tname], feat={"openat2": True}, trace=True, raw=False, procs=2, calls=cs,
                                  order=order + [0] * 400, post=True, expectall=True, mkmode=calls[0]["mode"] if len(modes) == 1 else -1,
                                  meta=dict(kind="concurrent-tlc", tree=tname, calls=calls, backend="kernel", scenario=scn, order_prefix=order)))
    if prop == "C13":
        tree = [N(5, R, "a", "dir"), N(6, 5, "b", "dir"), N(7, 6, "c", "dir"), N(8, 7, "f1", "file"), N(9, 6, "f2", "file"), N(10, 5, "l_out", "lnk", "../../out"),
                N(12, R, "e", "dir"), N(13, 12, "keep", "file"), N(11, R, "swap", "lnk", "../out"), N(14, R, "swap2", "lnk", "../../out")]
        for scn, path in RM2_SCENARIOS.items():
            r, scheds = tlc_remove2(scn, dump=True)
            rall, _ = tlc_remove2(scn, anyorder=True)
            ra, _ = tlc_remove2(scn, attack=1, anyorder=True)
            v1, _ = tlc_remove2(scn, ignore=False, anyorder=True)
            v2, _ = tlc_remove2(scn, nofollow=False, attack=1, anyorder=True)
            tlc_info[scn] = dict(states=r["distinct"], transitions=r["states"], complete=r["complete"], violated=r["violated"], schedules=len(scheds),
                                 any_listing_order=dict(states=rall["distinct"], complete=rall["complete"], violated=rall["violated"]),
                                 with_one_attacker_exchange=dict(states=ra["distinct"], violated=ra["violated"]),
                                 variant_no_enoent_tolerance=v1["violated"], variant_following_open_under_attack=v2["violated"])
            if quick and len(scheds) > 150:
                rnd.shuffle(scheds)
                scheds = scheds[:150]
            calls = [dict(op="remove_all", path=path), dict(op="remove_all", path=path)]
            for si, order in enumerate(scheds):
                cs = [dict(c, proc=pi) for pi, c in enumerate(calls)]
                cases.append(dict(id="tlcsched|%s|%d" % (scn, si), tree=tree, feat={"openat2": True}, trace=True, raw=False, procs=2, calls=cs,
                                  order=order + [0] * 600, post=True, expectall=True,
                                  meta=dict(kind="concurrent-tlc", tree="rm2", calls=calls, backend="kernel", scenario=scn, order_prefix=order)))
        # the permission dimension of the model: the caller may not remove some entries (EACCES / EPERM from may_delete())
        for scn in ("RD", "RE", "RF", "RG", "RH"):
            rp, _ = tlc_remove2(scn, anyorder=True, invs="TypeOK OkMeansGone DeniedMeansError OnlySubtreeGone OutsideUntouched")
            vp, _ = tlc_remove2(scn, anyorder=True, enotdir=True, invs="TypeOK OkMeansGone")
            tlc_info["perm-" + scn] = dict(states=rp["distinct"], complete=rp["complete"], violated=rp["violated"], variant_enotdir_on_open_means_gone=vp["violated"])
    conc_cases.tlc_info = tlc_info
    return cases, space


U = 65534
def _own(n, uid=None, mode=None):
    n = dict(n)
    if uid is not None:
        n["uid"] = uid
    if mode is not None:
        n["mode"] = mode
    return n


PERM_TREES = {
    # the caller (uid 65534) owns the root, a/ and e/sub/ but not e/: entries of e cannot be removed
    "perm1": [dict(id=90, p=2, n="", k="rootattr", uid=U), _own(N(5, R, "a", "dir"), U), _own(N(6, 5, "b", "dir"), U), _own(N(7, 6, "f", "file"), U), _own(N(8, 5, "l_out", "lnk", "../../out"), U),
              N(12, R, "e", "dir"), N(13, 12, "keep", "file"), _own(N(14, 12, "sub", "dir"), U), _own(N(15, 14, "x", "file"), U), N(16, 12, "lnk", "lnk", "../a"), N(17, 12, "fifo", "fifo")],
    # the root is not the caller's: a/ can be emptied but not removed
    "perm2": [_own(N(5, R, "a", "dir"), U), _own(N(6, 5, "b", "dir"), U), _own(N(7, 6, "f", "file"), U), N(12, R, "e", "dir"), N(13, 12, "keep", "file")],
    # a sticky world-writable directory of somebody else with a foreign file and the caller's own subdirectory
    "perm3": [dict(id=90, p=2, n="", k="rootattr", uid=U), _own(N(5, R, "a", "dir"), U), _own(N(6, 5, "b", "dir"), 0, 0o1777), N(9, 6, "f2", "file"), _own(N(7, 6, "c", "dir"), U), _own(N(8, 7, "f1", "file"), U),
              N(10, 6, "l2", "lnk", "../../e"), N(12, R, "e", "dir"), N(13, 12, "keep", "file")],
}
PERM_PATHS = {"perm1": ["e/keep", "e/lnk", "e/fifo", "e", "e/sub", "a", "e/sub/x", "e/lnk/b"], "perm2": ["a", "a/b", "e/keep"], "perm3": ["a/b", "a/b/f2", "a/b/c", "a/b/l2", "a"]}


def perm_cases():
    out = []
    for tname, tree in PERM_TREES.items():
        for path in PERM_PATHS[tname]:
            for bname, feat in rootops_static.FEATS:
                for api in ("rust", "c"):
                    call = dict(op="remove_all", path=path, api=api, euid=U)
                    out.append(dict(id="perm|%s|%s|%s|%s" % (tname, path, bname, api), tree=tree, feat=feat, trace=True, raw=False, calls=[call], post=True,
                                    meta=dict(kind="static-perm", tree=tname, call=call, backend=bname)))
    return out


def run(prop, tier_):
    t0 = time.time()
    quick = tier_ == "quick"
    rnd = random.Random(seed())
    verdicts = collections.defaultdict(lambda: Verdict("X"))
    v = verdicts[prop] = Verdict(prop)
    build_s = build_harness()
    scases, gen, design, total = static_cases(prop, rnd, quick)
    ccases, space = conc_cases(prop, rnd, quick)
    # mixed modes differ between callers in one scenario: mode postcondition only when equal
    for c in ccases:
        modes = {x.get("mode") for x in c["meta"]["calls"]}
        if len(modes) > 1:
            c["mkmode"] = -1
    if prop == "C13":
        # wide and deep subtrees: directory listings that need several getdents batches, recursion 40 levels deep, and a
        # sibling that must survive (the iteration restarts until a fresh listing is empty; nothing may be skipped)
        wide = [N(5, R, "w", "dir"), N(6, R, "keep", "dir"), N(7, 6, "k", "file")]
        nid = 8
        for i in range(700):
            wide.append(N(nid, 5, "file-with-a-rather-long-name-%04d" % i, "file")); nid += 1
        for i in range(40):
            wide.append(N(nid, 5, "sub%02d" % i, "dir")); nid += 1
            wide.append(N(nid, nid - 1, "inner", "file")); nid += 1
            wide.append(N(nid, nid - 2, "l_keep", "lnk", "../../keep")); nid += 1
        deep = [N(5, R, "d", "dir"), N(6, R, "keep", "file")]
        par, nid = 5, 7
        for i in range(40):
            deep.append(N(nid, par, "n", "dir")); deep.append(N(nid + 1, par, "f%d" % i, "file")); par = nid; nid += 2
        for tname, tree, path in (("wide", wide, "w"), ("deep", deep, "d"), ("deep", deep, "d/n/n/n")):
            for bname, feat in rootops_static.FEATS:
                for api in ("rust", "c"):
                    call = dict(op="remove_all", path=path, api=api)
                    scases.append(dict(id="big|%s|%s|%s|%s" % (tname, path, bname, api), tree=tree, feat=feat, trace=True, raw=False, calls=[call], post=True,
                                       meta=dict(kind="static-big", tree=tname, call=call, backend=bname, expect=dict(ok=True), model_post=True)))
    if prop == "C13":
        # a caller without the permission to remove (part of) the subtree: success still means "gone"
        scases += perm_cases()
    acases = []
    if prop == "C13":
        # "never follows links" under an attacker: every placement of the priority attacker actions
        # (swap the victim for an escaping symlink / staged directory, move it out) before every
        # relevant syscall of remove_all; judged with the containment predicate of TraceFS
        for tname, path in (("chain", "a/b"), ("chain", "a"), ("links", "la/c"), ("links", "a/b")):
            nodes = race.RACE_TREES[tname]
            call = dict(op="remove_all", path=path)
            for bname, feat in rootops_static.FEATS:
                counts, bres, _ = race.baseline_counts(nodes, [call], feat, jobs=1)
                focus = set()
                for e in bres[0].get("events", []):
                    if e.get("ev") == "sys" and e.get("rel"):
                        focus.add(e.get("dfd_id"))
                        if e.get("r_id"):
                            focus.add(e.get("r_id"))
                acts = [a for a in race.repertoire(nodes, focus=focus) if a.get("prio")]
                acases += race.make_sweep(tname, nodes, call, feat, counts[0], acts, pairs=False)
        if quick and len(acases) > 1500:
            rnd.shuffle(acases)
            acases = acases[:1500]
        for c in acases:
            c["meta"]["kind"] = "attacked"
    cases = scases + ccases + acases
    cases.sort(key=lambda c: json.dumps(c["feat"]))
    results = run_pv(cases, jobs=12, tag=prop)
    results, _ = rerun_noisy(cases, results, tag=prop + "r")
    stats, samples = collections.Counter(), []
    # sequential expectation of the model vs the real outcome (evidence; disagreement with a failed
    # postcondition is already a violation, otherwise it is reported as model drift)
    for c, r in zip(cases, results):
        if r.get("status") != "ok":
            stats["abnormal"] += 1
            v.violation(dict(check="mkrm", what="abnormal termination", case=c["id"]), "%s: run ended abnormally: %s %s" % (prop, r.get("status"), c["id"]), c)
            continue
        if c["meta"].get("kind") == "static":
            got = lib_outcome(r["out"][0]["results"][0])
            exp = c["meta"]["expect"]
            canon = (lambda e: {"InvalidArgument": "EINVAL", "SAFETY": "EXDEV"}.get(e, e)) if c["meta"]["call"].get("api") == "c" else (lambda e: e)
            if bool(exp.get("ok")) != (got[0] == "ok") or (not exp.get("ok") and canon(got[1]) != canon(exp.get("err"))):
                stats["model_disagrees"] += 1
                if stats["model_disagrees"] <= 6:
                    v.notes.append("sequential model vs library: %s [%s] model=%s library=%s" % (c["meta"]["call"], c["meta"]["backend"], exp, got))
            else:
                stats["model_agrees"] += 1
    # "nothing else in the tree was ... modified": kind, permission bits, owner and link body of every object that exists
    # before and after the call(s) are unchanged (unattacked cases)
    for c, r in zip(cases, results):
        if r.get("status") != "ok" or c["meta"].get("kind") == "attacked" or not r.get("init") or not r.get("final"):
            continue
        before = {i["id"]: (i.get("k"), i.get("mode"), i.get("uid"), i.get("b")) for i in r["init"]["inodes"]}
        after = {i["id"]: (i.get("k"), i.get("mode"), i.get("uid"), i.get("b")) for i in r["final"]["inodes"]}
        changed = sorted(i for i in before if i in after and before[i] != after[i])
        stats["attr_checked"] += 1
        if changed:
            i = changed[0]
            v.violation(dict(check="existing-object-modified", op=c["calls"][0]["op"], backend=c["meta"].get("backend")),
                        "%s: %s(%r) [%s backend] modified an object that existed before the call: inode %d (kind, mode, owner, body) %s -> %s" % (
                            prop, c["calls"][0]["op"], c["calls"][0].get("path"), c["meta"].get("backend"), i, before[i], after[i]), c)
    # the wide / deep trees exceed the inode range of the trace specifications: judged directly on the real snapshots
    big = [(c, r) for c, r in zip(cases, results) if c["meta"].get("kind") == "static-big"]
    small = [(c, r) for c, r in zip(cases, results) if c["meta"].get("kind") != "static-big"]
    for c, r in big:
        if r.get("status") != "ok":
            continue
        o = lib_outcome(r["out"][0]["results"][0])
        init = {(d["p"], d["n"], d["c"]) for d in r["init"]["dents"]}
        fin = {(d["p"], d["n"], d["c"]) for d in r["final"]["dents"]}
        # the named entry: walk the path from the root in the initial snapshot
        cur = 2
        for comp in c["meta"]["call"]["path"].split("/"):
            cur = next((ch for (p_, n_, ch) in init if p_ == cur and n_ == comp), None)
        sub, grew = {cur}, True
        while grew:
            grew = False
            for (p_, n_, ch) in init:
                if p_ in sub and ch not in sub:
                    sub.add(ch)
                    grew = True
        want = {(p_, n_, ch) for (p_, n_, ch) in init if ch not in sub}
        stats["big_cases"] += 1
        if o[0] != "ok" or fin != want:
            v.violation(dict(check="remove_all-big", tree=c["meta"]["tree"], backend=c["meta"]["backend"], api=c["meta"]["call"].get("api"), outcome=list(o)),
                        "C13: remove_all(%r) on the %s tree [%s backend, %s API]: outcome %s; %d entries of the subtree are left, %d entries outside it are gone, %d appeared" % (
                            c["meta"]["call"]["path"], c["meta"]["tree"], c["meta"]["backend"], c["meta"]["call"].get("api"), o, len(fin - want - (fin - init)), len(want - fin), len(fin - init)), c)
    cases, results = [c for c, _ in small], [r for _, r in small]
    race.judge((prop, "C03") if prop == "C13" else (prop,), cases, results, verdicts, stats, samples)
    if prop == "C13":
        for sig, desc, rep in verdicts["C03"].violations:
            if sig.get("op") == "remove_all":
                v.violation(dict(sig, check="remove_all-follows-or-escapes"), desc.replace("C03:", "C13 (remove_all acted outside the named subtree / followed a link):"), rep)
    # action-level conformance: every recorded openat2-backend mkdir_all run (static spellings, two-process
    # schedules) must be a behaviour of Mkdir2.tla, with its design invariants evaluated on the driven states
    conf = None
    if prop == "C12":
        todo = [(c, r) for c, r in zip(cases, results)
                if set(c.get("feat", {})) <= {"openat2"} and r.get("status") == "ok" and all(x.get("op") == "mkdir_all" for x in c.get("calls", []))
                and c["meta"].get("kind") in ("static", "concurrent", "concurrent-tlc")]
        conf = trace_conformance("MC_TraceMkdir2.tla", "TraceMkdir2.cfg", project_mkdir2, todo, batch=120)
        for d in conf["drift"][:5]:
            v.notes.append("MODEL-DRIFT Mkdir2: %s first unmatched %s (event %d of %d)" % (d["case"], d["first_unmatched"], d["at_event"], d["of"]))
        for d in conf["invariant_violations"][:5]:
            v.notes.append("MODEL-DRIFT Mkdir2: invariant %s fails on the model state driven by the real trace of %s" % (d["invariant"], d["case"]))
        conf = dict(conf, drift=conf["drift"][:10], invariant_violations=conf["invariant_violations"][:10], n_drift=len(conf["drift"]), n_invariant=len(conf["invariant_violations"]))
    conf_rm = None
    if prop == "C13":
        todo = [(c, r) for c, r in zip(cases, results)
                if r.get("status") == "ok" and all(x.get("op") == "remove_all" for x in c.get("calls", []))]
        conf_rm = trace_conformance("MC_TraceRemove2.tla", "TraceRemove2.cfg", project_remove2, todo, batch=120)
        for d in conf_rm["drift"][:5]:
            v.notes.append("MODEL-DRIFT Remove2: %s first unmatched %s (event %d of %d)" % (d["case"], d["first_unmatched"], d["at_event"], d["of"]))
        for d in conf_rm["invariant_violations"][:5]:
            v.notes.append("MODEL-DRIFT Remove2: invariant %s fails on the model state driven by the real trace of %s" % (d["invariant"], d["case"]))
        conf_rm = dict(conf_rm, drift=conf_rm["drift"][:10], invariant_violations=conf_rm["invariant_violations"][:10], n_drift=len(conf_rm["drift"]), n_invariant=len(conf_rm["invariant_violations"]))
    rc = v.finish()
    cov = dict(partial_lookup_equivalence=getattr(static_cases, "partial", None) if prop == "C12" else None, mkdir2_action_conformance=conf, remove2_action_conformance=conf_rm, states=max(gen["distinct"], 1) + stats["trace_states"], transitions=max(gen["states"], 1) + stats["events"], traces_validated_against_impl=stats["traces"],
               samples=samples, evaluations=len(cases), distinct_nontrivial=len({json.dumps(c["meta"], sort_keys=True) for c in cases}),
               rule="static case = (path spelling generated by TLC, backend); concurrent case = (scenario of two calls, backend, schedule prefix with up to two preemptions at relevant-syscall granularity); all distinct by construction; non-trivial = all (every path has symlink/dot/missing components or a second process)",
               exhaustive=not quick, static_generated=total, static_executed=len(scases), schedule_space=space, schedules_executed=len(ccases), big_tree_cases=stats["big_cases"],
               two_process_model=getattr(conc_cases, "tlc_info", {}), design_invariant_violated=design["violated"], model_agrees=stats["model_agrees"], model_disagrees=stats["model_disagrees"],
               kernel_model_mismatches=stats["kmm"], kmm_samples=stats.get("kmm_samples", [])[:3], notes=v.notes[:8], build_s=round(build_s, 1))
    return rc, cov, time.time() - t0, v


ASSUME = ["two library processes are single-threaded workers stopped at every relevant syscall by the ptrace supervisor; schedules with up to two preemptions (quick: seeded sample)",
          "umask 022 in the workers; setgid inheritance not exercised (tmpfs directories without setgid)",
          "the sequential models DoMkdirAll/DoRemoveAll use the openat2-style partial lookup; equivalence with the emulated partial lookup is C04"]
