import json, time, collections
from lib.common import *
from checks import rootops_static

ASSUME = ["TLC enumerates the bounded instance (two trees, all path spellings up to the stated length over the tree's names plus '..', '.', '', a missing name; all op kinds/flags)",
          "reference = the harness' own raw *at call applied to (openat2(RESOLVE_IN_ROOT) of the parent part, final name), per the property statement; the VFS model is cross-checked against it",
          "modes/ownership of created inodes are compared only as inode kind here",
          "unprivileged family: the harness switches the effective uid only (effective gid 0 and root's groups stay); the reference call is made by the same caller"]


def main(tier_):
    data = rootops_static.run("C14", tier_, sample=2500 if tier_ == "quick" else None)
    v = Verdict("C14")
    stats, samples = collections.Counter(), []
    rootops_static.judge_c14(data, v, stats, samples)
    rootops_static.run_unpriv(data, v, stats, n=400 if tier_ == "quick" else 4000)
    rc = v.finish()
    gen, design = data["gen"], data["design"]
    nontrivial = len({(c["tree"], json.dumps(c["op"], sort_keys=True), "/".join(c["path"]), "/".join(c["path2"])) for c in data["cases"]
                      if any(x in ("..", ".", "") for x in c["path"]) or c["op"]["op"] in ("rename",) or c["split"]["name"] in (".", "..")})
    cov = dict(states=gen["distinct"], transitions=gen["states"], traces_validated_against_impl=stats["cases"], samples=samples or [dict(note="no dot-name sample in this seed")],
               evaluations=stats["runs_kernel"] + stats["runs_emulated"], distinct_nontrivial=nontrivial,
               rule="case = (tree, operation kind+flags, path spelling, second path); non-trivial = spelling contains '..', '.', '' or the op is a rename / has a dot final name",
               exhaustive=len(data["cases"]) == data["total"], generated=data["total"], executed=len(data["cases"]),
               design_invariant_violated=design["violated"], oracle_vs_kernel_mismatch=stats["oracle_vs_kernel_mismatch"],
               unprivileged_runs=stats["unpriv_runs"], unprivileged_agree=stats["unpriv_agree"], unprivileged_reference_outcomes=stats.get("unpriv_outcomes"), agree_kernel=stats["agree_kernel"], agree_emulated=stats["agree_emulated"], notes=v.notes[:10], build_s=round(data["build_s"], 1))
    write_evidence("C14", tier_, "model_checking", cov, ASSUME, time.time() - data["t0"], len(v.violations))
    return rc
