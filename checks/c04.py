"""C04: kernel and emulated resolver backends are observationally equivalent.
Three families, all TLC-generated, each executed with openat2 present and with openat2 masked
(seccomp ENOSYS), outcomes compared field by field (success/failure, error class+errno, result
inode, F_GETFL image without O_NOFOLLOW/O_CLOEXEC, FD_CLOEXEC, resulting tree):
  (a) lookups: the C01 family (Lookup.tla cases)
  (b) single-entry mutations + mkdir_all/remove_all: the C14/C12 families (RootOps.tla cases)
  (c) one-shot open over the flag lattice x object kinds (FlagLattice in MC_Lookup)"""
import json, time, random, collections, itertools
from lib.common import *
from checks import lookup_static, rootops_static

ASSUME = ["feature set 'openat2 absent' = seccomp filter answering ENOSYS for openat2 (the library then selects the emulated backend and the emulated procfs resolver)",
          "F_GETFL is compared on {access mode, O_APPEND, O_NONBLOCK, O_DIRECT, O_DSYNC/O_SYNC, O_NOATIME, O_DIRECTORY, O_PATH, O_LARGEFILE}; O_NOFOLLOW excluded as the property says",
          "<= 40 link traversals (between the two link budgets the backends legitimately differ)"]
MASK = O["RDONLY"] | O["WRONLY"] | O["RDWR"] | O["APPEND"] | O["NONBLOCK"] | O["DIRECT"] | O["SYNC"] | O["NOATIME"] | O["DIRECTORY"] | O["PATH"] | O["LARGEFILE"]

LATTICE_TREE = [dict(id=5, p=2, n="d", k="dir"), dict(id=6, p=2, n="f", k="file"), dict(id=7, p=2, n="p", k="fifo"), dict(id=8, p=2, n="ld", k="lnk", b="d"),
                dict(id=9, p=2, n="lf", k="lnk", b="f"), dict(id=10, p=2, n="dang", k="lnk", b="nonexist"), dict(id=11, p=5, n="sub", k="dir"),
                dict(id=12, p=2, n="labs", k="lnk", b="/d/sub/")]
LATTICE_PATHS = ["d", "f", "p", "ld", "lf", "dang", "labs", "d/", "f/", "ld/sub", "nx", ".", "ld/.."]
ACC = [O["RDONLY"], O["WRONLY"], O["RDWR"], O["PATH"]]
BITS = [O["NOFOLLOW"], O["DIRECTORY"], O["APPEND"], O["TRUNC"], O["NOATIME"], O["DSYNC"], O["SYNC"], O["NOCTTY"], O["CLOEXEC"], O["TMPFILE"], O["DIRECT"]]


def norm(r):
    o = lib_outcome(r)
    if o[0] == "ok":
        return ("ok", r.get("id"), r.get("ft"), (r.get("fl") or 0) & MASK, bool(r.get("cloexec")))
    return o


def lattice_cases(rnd, quick):
    combos = []
    for acc in ACC:
        for k in range(0, 4):
            for bits in itertools.combinations(BITS, k):
                # (O_NONBLOCK keeps FIFO opens from blocking; openat2 rejects it -- like everything but
                #  O_DIRECTORY|O_NOFOLLOW|O_CLOEXEC -- together with O_PATH)
                combos.append(acc | (0 if acc == O["PATH"] else O["NONBLOCK"]) | sum(bits))
    combos = sorted(set(combos))
    always = [O["PATH"] | x for x in (0, O["DIRECTORY"], O["NOFOLLOW"], O["DIRECTORY"] | O["NOFOLLOW"], O["CLOEXEC"], O["DIRECTORY"] | O["CLOEXEC"])]
    if quick:
        rnd.shuffle(combos)
        combos = sorted(set(combos[:160] + always))
    cases, idx = [], []
    for fl in combos:
        calls = [dict(op="open", path=p, oflags=fl) for p in LATTICE_PATHS]
        for bname, feat in lookup_static.FEATS:
            cases.append(dict(id="lat-%d-%s" % (fl, bname), tree=LATTICE_TREE, feat=feat, trace=False, calls=calls))
            idx.append((fl, bname))
    return cases, idx, len(combos)


def main(tier_):
    t0 = time.time()
    quick = tier_ == "quick"
    rnd = random.Random(seed())
    v = Verdict("C04")
    stats = collections.Counter()
    samples = []
    # (a) lookups: reuse the C01 machinery; a backend that deviates from kernel truth deviates from the other backend
    va, cova, _ = lookup_static.run("C04", tier_, "MC_C01_quick.cfg" if quick else "MC_C01_thorough.cfg", sample=2000 if quick else None)
    for sig, desc, rep in va.violations:
        v.violation(dict(sig, family="lookups"), "C04/lookups: " + desc, rep)
    stats["lookup_cases"] = cova["traces_validated_against_impl"]
    # the backends must agree up to the kernel's real link budget: a chain of exactly 40 links resolves on both
    vb, covb, _ = lookup_static.run("C04", tier_, "MC_C01_budget.cfg", sample=None, bind_budget=True)
    for sig, desc, rep in vb.violations:
        v.violation(dict(sig, family="real-budgets"), "C04/lookups at the real link budget: " + desc, rep)
    stats["lookup_cases_real_budget"] = covb["traces_validated_against_impl"]
    # (b) mutations
    data = rootops_static.run("C04", tier_, sample=1000 if quick else None)
    for ci, c in enumerate(data["cases"]):
        d = data["per"][ci]
        k, e = d["kernel"], d["emulated"]
        stats["mutation_cases"] += 1
        same = k["out"][0] == e["out"][0] and (k["out"][0] != "err" or k["out"][1] == e["out"][1]) and k["shape"] == e["shape"] and k.get("newattrs") == e.get("newattrs")
        if same and k["out"][0] == "ok" and c["op"]["op"] == "create_file":
            same = norm(k["raw"])[2:] == norm(e["raw"])[2:]
        if not same:
            path, path2 = "/".join(c["path"]), "/".join(c["path2"])
            sig = dict(check="backend-equivalence", family="mutations", op=c["op"]["op"], path=path, path2=path2, kernel=list(k["out"]), emulated=list(e["out"]))
            v.violation(sig, "C04/mutations: %s(%r%s): kernel backend %s, emulated backend %s, trees %s" % (json.dumps(c["op"]), path, ", %r" % path2 if path2 else "", k["out"], e["out"],
                        "equal" if k["shape"] == e["shape"] else "DIFFER"), dict(id="replay", tree=[], calls=[rootops_static.lib_call(c)]))
    # (b2) mkdir_all / remove_all spellings
    from checks import mkrm
    sc, gen, design, total = mkrm.static_cases("C12", rnd, quick)
    sc2, _, _, _ = mkrm.static_cases("C13", rnd, quick)
    allc = [dict(c, trace=False) for c in sc + sc2]
    allc.sort(key=lambda c: json.dumps(c["feat"]))
    res = run_pv(allc, jobs=12, tag="C04m")
    res, _ = rerun_noisy(allc, res, tag="C04mr")
    pair = collections.defaultdict(dict)
    for c, r in zip(allc, res):
        first_new = max(i["id"] for i in r["init"]["inodes"]) + 1
        key = c["id"].rsplit("|", 1)[0] + "|" + c["calls"][0]["op"]
        pair[key][c["meta"]["backend"]] = (rootops_static.outcome(r["out"][0]["results"][0], first_new), rootops_static.shape_of_snapshot(r["final"], first_new), c)
    for key, d in pair.items():
        if len(d) != 2:
            continue
        stats["mkrm_cases"] += 1
        (ko, ks, c), (eo, es, _) = d["kernel"], d["emulated"]
        if not (ko[0] == eo[0] and (ko[0] != "err" or ko[1] == eo[1]) and ks == es and (ko[0] != "ok" or ko[1] == eo[1])):
            call = c["calls"][0]
            v.violation(dict(check="backend-equivalence", family="mkdir_all/remove_all", op=call["op"], path=call["path"], kernel=list(ko), emulated=list(eo)),
                        "C04/%s(%r): kernel backend %s, emulated backend %s, trees %s" % (call["op"], call["path"], ko, eo, "equal" if ks == es else "DIFFER"), c)
    # (c) flag lattice
    cases, idx, ncombos = lattice_cases(rnd, quick)
    order = sorted(range(len(cases)), key=lambda i: idx[i][1])
    res = run_pv([cases[i] for i in order], jobs=12, tag="C04l")
    res, _ = rerun_noisy([cases[i] for i in order], res, tag="C04lr")
    by = collections.defaultdict(dict)
    for i, r in zip(order, res):
        fl, bname = idx[i]
        if r.get("status") != "ok" or "results" not in r["out"][0]:
            raise ToolError("lattice case failed: %s" % json.dumps(r)[:300])
        by[fl][bname] = [norm(x) for x in r["out"][0]["results"]]
    nx = LATTICE_PATHS.index("nx")
    for fl, d in by.items():
        # the property quantifies over flag sets openat2 accepts: openat2 validates flags before
        # any lookup, so an unaccepted set answers EINVAL even for a missing name
        if d["kernel"][nx] == ("err", "EINVAL"):
            stats["flag_sets_not_accepted_by_openat2"] += 1
            continue
        stats["flag_sets_accepted"] += 1
        for pi, path in enumerate(LATTICE_PATHS):
            stats["lattice_cases"] += 1
            k, e = d["kernel"][pi], d["emulated"][pi]
            if k == ("err", "EAGAIN") or e == ("err", "EAGAIN"):
                stats["inconclusive_eagain"] += 1
                continue
            if k != e:
                names = [n for n, b in O.items() if b and (fl & b) == b and n not in ("RDONLY",)]
                sig = dict(check="backend-equivalence", family="flag-lattice", path=path, oflags=fl, flag_names=sorted(names), kernel=list(k), emulated=list(e))
                v.violation(sig, "C04/open_subpath(%r, %s): kernel backend %s, emulated backend %s" % (path, "|".join(sorted(names)) or "O_RDONLY", k, e),
                            dict(id="replay", tree=LATTICE_TREE, feat={"openat2": False}, trace=False, calls=[dict(op="open", path=path, oflags=fl)]))
            elif len(samples) < 4 and k[0] == "ok":
                samples.append(dict(path=path, oflags=fl, kernel=list(k), emulated=list(e)))
    # (d) argument paths with an interior NUL byte (Rust API: a Path can carry one; a C string cannot): every operation, both backends
    from checks import race
    nul_calls = [dict(op="resolve", path="a\x00zz"), dict(op="resolve", path="a/b\x00/../../..", nofollow=True), dict(op="open", path="a/b/c/f\x00x", oflags=O["RDONLY"] | O["NONBLOCK"]),
                 dict(op="readlink", path="la\x00"), dict(op="mkdir_all", path="a/new\x00/x", mode=0o755), dict(op="create", path="a/nf\x00g", kind="file", mode=0o644),
                 dict(op="create_file", path="a/cf\x00", oflags=O["RDWR"], mode=0o600), dict(op="remove_file", path="a/b/c/f\x00"), dict(op="remove_all", path="a\x00"),
                 dict(op="rename", src="a/b/c/f\x00", dst="e/g", flags=0), dict(op="rename", src="a/b/c/f", dst="e/g\x00h", flags=0), dict(op="resolve", path="..\x00/x"), dict(op="resolve", path="\x00")]
    nres = {}
    for bname, feat in rootops_static.FEATS:
        r = run_pv([dict(id="nul|" + bname, tree=race.RACE_TREES["links"], feat=feat, trace=False, calls=nul_calls)], jobs=1, tag="C04n")[0]
        if r.get("status") != "ok" or "results" not in r["out"][0]:
            raise ToolError("NUL case failed: %s" % json.dumps(r)[:300])
        nres[bname] = ([norm(x) for x in r["out"][0]["results"]], sorted((d["p"], d["n"]) for d in r["final"]["dents"]))
    for ci, call in enumerate(nul_calls):
        stats["nul_cases"] += 1
        k, e = nres["kernel"][0][ci], nres["emulated"][0][ci]
        if k != e:
            v.violation(dict(check="backend-equivalence", family="nul-byte", op=call["op"], kernel=list(k), emulated=list(e)),
                        "C04/%s(%r) [path with an interior NUL byte]: kernel backend %s, emulated backend %s" % (call["op"], call.get("path") or (call.get("src"), call.get("dst")), k, e),
                        dict(id="replay", tree=race.RACE_TREES["links"], feat={"openat2": True}, trace=False, calls=[call]))
    # (e) names and paths that are not valid UTF-8, next to look-alike siblings named like their lossy conversion
    hx = lambda b: b.hex()
    rtree = [dict(id=5, p=2, n="", nhex=hx(b"caf\xe9"), k="dir"), dict(id=6, p=5, n="inner", k="file"), dict(id=7, p=2, n="caf\ufffd", k="dir"), dict(id=8, p=7, n="inner", k="file"),
             dict(id=9, p=2, n="lk", k="lnk", b="", bhex=hx(b"caf\xe9/inner"))]
    raw_calls = [dict(op="resolve", path="", path_hex=hx(b"caf\xe9/inner")), dict(op="open", path="", path_hex=hx(b"lk"), oflags=O["RDONLY"] | O["NONBLOCK"]),
                 dict(op="readlink", path="", path_hex=hx(b"lk")), dict(op="mkdir_all", path="", path_hex=hx(b"caf\xe9/n\xff/x"), mode=0o755),
                 dict(op="create", path="", path_hex=hx(b"caf\xe9/f\xfe"), kind="file", mode=0o644), dict(op="remove_file", path="", path_hex=hx(b"caf\xe9/inner")),
                 dict(op="create_file", path="", path_hex=hx(b"caf\xe9/cf\x80"), oflags=O["RDWR"], mode=0o600), dict(op="remove_all", path="", path_hex=hx(b"caf\xe9"))]
    rres = {}
    for bname, feat in rootops_static.FEATS:
        r = run_pv([dict(id="raw|" + bname, tree=rtree, feat=feat, trace=False, calls=raw_calls)], jobs=1, tag="C04w")[0]
        if r.get("status") != "ok" or "results" not in r["out"][0]:
            raise ToolError("raw-byte case failed: %s" % json.dumps(r)[:300])
        rres[bname] = ([norm(x) for x in r["out"][0]["results"]], sorted((d["p"], d["n"], d["c"] if d["c"] < 13 else "NEW") for d in r["final"]["dents"]))
    for ci, call in enumerate(raw_calls):
        stats["raw_byte_cases"] += 1
        k, e = rres["kernel"][0][ci], rres["emulated"][0][ci]
        if k != e:
            v.violation(dict(check="backend-equivalence", family="raw-bytes", op=call["op"], kernel=list(k), emulated=list(e)),
                        "C04/%s(%r) [path bytes that are not valid UTF-8]: kernel backend %s, emulated backend %s" % (call["op"], bytes.fromhex(call["path_hex"]), k, e),
                        dict(id="replay", tree=rtree, feat={"openat2": True}, trace=False, calls=[call]))
    # (f) an unprivileged caller (effective uid 65534) on a tree with directories it may not search, read or write: the
    #     permission answers (EACCES / EPERM) and their place in the walk must be the same on both backends
    U = 65534
    ptree = [dict(id=5, p=2, n="pub", k="dir"), dict(id=6, p=5, n="f", k="file"), dict(id=7, p=2, n="priv", k="dir", mode=0o700), dict(id=8, p=7, n="f", k="file"),
             dict(id=9, p=7, n="sub", k="dir"), dict(id=10, p=2, n="nox", k="dir", mode=0o744), dict(id=11, p=10, n="f", k="file"), dict(id=12, p=2, n="nor", k="dir", mode=0o711),
             dict(id=13, p=12, n="f", k="file"), dict(id=14, p=2, n="own", k="dir", mode=0o700, uid=U), dict(id=15, p=14, n="f", k="file", uid=U), dict(id=16, p=2, n="secretf", k="file", mode=0o600),
             dict(id=17, p=2, n="l_priv", k="lnk", b="priv/f"), dict(id=18, p=2, n="l_pub", k="lnk", b="pub/f"), dict(id=19, p=2, n="l_thru", k="lnk", b="priv/sub/../../pub/f"),
             dict(id=20, p=14, n="l_up", k="lnk", b="../priv/sub", uid=U), dict(id=24, p=2, n="l_noxs", k="lnk", b="nox/"), dict(id=21, p=2, n="st", k="dir", mode=0o1777), dict(id=22, p=21, n="theirs", k="file"), dict(id=23, p=21, n="mine", k="file", uid=U)]
    pcalls = []
    for pth in ("pub/f", "priv/f", "priv", "priv/sub/..", "priv/../pub/f", "nox/f", "nox", "nox/..", "nor/f", "nor", "own/f", "secretf", "l_priv", "l_pub", "l_thru", "own/l_up", "own/l_up/../f", "priv/nx", "nox/nx", "st/theirs", "nox/", "nox//", "l_noxs", "l_noxs/", "nox/./", "nor/"):
        pcalls += [dict(op="resolve", path=pth, euid=U), dict(op="open", path=pth, oflags=O["RDONLY"] | O["NONBLOCK"], euid=U), dict(op="resolve", path=pth, nofollow=True, euid=U)]
    pcalls += [dict(op="open", path="nor", oflags=O["RDONLY"] | O["DIRECTORY"], euid=U), dict(op="open", path="secretf", oflags=O["PATH"], euid=U), dict(op="open", path="own/f", oflags=O["RDWR"], euid=U),
               dict(op="open", path="pub/f", oflags=O["WRONLY"], euid=U), dict(op="readlink", path="l_priv", euid=U), dict(op="readlink", path="own/l_up", euid=U),
               dict(op="mkdir_all", path="pub/new", mode=0o755, euid=U), dict(op="mkdir_all", path="own/n1/n2", mode=0o755, euid=U), dict(op="mkdir_all", path="priv/sub/n", mode=0o755, euid=U),
               dict(op="mkdir_all", path="own/l_up/n", mode=0o755, euid=U), dict(op="mkdir_all", path="nox/n", mode=0o755, euid=U),
               dict(op="create", path="own/c1", kind="file", mode=0o644, euid=U), dict(op="create", path="pub/c1", kind="file", mode=0o644, euid=U), dict(op="create", path="own/c2", kind="lnk", target="../priv", euid=U),
               dict(op="create", path="own/c3", kind="chr", mode=0o644, euid=U),
               dict(op="create_file", path="own/cf", oflags=O["RDWR"], mode=0o600, euid=U), dict(op="create_file", path="priv/cf", oflags=O["RDWR"], mode=0o600, euid=U), dict(op="create_file", path="secretf", oflags=O["RDWR"], mode=0o600, euid=U),
               dict(op="remove_file", path="pub/f", euid=U), dict(op="remove_file", path="own/f", euid=U), dict(op="remove_file", path="st/theirs", euid=U), dict(op="remove_file", path="st/mine", euid=U),
               dict(op="remove_dir", path="priv/sub", euid=U), dict(op="remove_dir", path="own/n1/n2", euid=U), dict(op="remove_all", path="priv", euid=U), dict(op="remove_all", path="own/n1", euid=U), dict(op="remove_all", path="nox", euid=U),
               dict(op="rename", src="own/c1", dst="pub/g", flags=0, euid=U), dict(op="rename", src="own/c1", dst="own/g", flags=0, euid=U), dict(op="rename", src="pub/f", dst="own/h", flags=0, euid=U),
               dict(op="rename", src="own/g", dst="st/mine2", flags=0, euid=U), dict(op="rename", src="st/theirs", dst="st/x", flags=0, euid=U)]
    pres = {}
    for bname, feat in rootops_static.FEATS:
        r = run_pv([dict(id="perm|" + bname, tree=ptree, feat=feat, trace=False, calls=pcalls)], jobs=1, tag="C04p")[0]
        if r.get("status") != "ok" or "results" not in r["out"][0]:
            raise ToolError("permission case failed: %s" % json.dumps(r)[:300])
        pres[bname] = ([norm(x) for x in r["out"][0]["results"]], sorted((d["p"], d["n"], d["c"] if d["c"] < 25 else "NEW") for d in r["final"]["dents"]))
    outc = collections.Counter()
    for ci, call in enumerate(pcalls):
        stats["perm_cases"] += 1
        k, e = pres["kernel"][0][ci], pres["emulated"][0][ci]
        outc[str(k[1]) if k[0] == "err" else "ok"] += 1
        if k != e:
            v.violation(dict(check="backend-equivalence", family="unprivileged", op=call["op"], path=call.get("path") or call.get("src"), kernel=list(k), emulated=list(e)),
                        "C04/%s(%r) as uid 65534 [tree with directories the caller may not search / read / write]: kernel backend %s, emulated backend %s" % (call["op"], call.get("path") or (call.get("src"), call.get("dst")), k, e),
                        dict(id="replay", tree=ptree, feat={"openat2": False}, trace=False, calls=pcalls[:ci + 1]))
    if pres["kernel"][1] != pres["emulated"][1]:
        v.violation(dict(check="backend-equivalence", family="unprivileged", op="final-tree"), "C04: after the operations of the unprivileged caller the two backends left different trees: kernel-only %s, emulated-only %s" % (
            [x for x in pres["kernel"][1] if x not in pres["emulated"][1]][:4], [x for x in pres["emulated"][1] if x not in pres["kernel"][1]][:4]), {})
    stats["perm_outcomes"] = dict(outc)
    # (g) the root is "/" of the mount namespace (the host tree, read-only lookups): '..' at the real root, procfs / sysfs /
    #     devtmpfs below the root, absolute links into the root.  Library (both backends) == raw openat2 in the same process.
    #     (magic-links whose readlink text is not a path -- pipe:[n], socket:[n] -- are outside the quantified trees)
    hpaths = ["etc", "etc/passwd", "../../etc/passwd", "proc/..", "..", "/", "etc/../..", "usr/bin/../..", "dev/null", "proc/self", "proc/self/..", "proc/thread-self/../..", "proc/mounts",
              "proc/net", "proc/self/status", "nonexistent-entry", "etc/passwd/", "etc/passwd/..", "proc/self/cwd", "proc/self/exe", "proc/self/root/etc", "sys/..", "dev/shm/..", "dev/pts/../null",
              "proc/sys/kernel/../fs", "//etc//.//passwd", "proc/self/task/../status", "dev/null/.."]
    hcalls = []
    for hp in hpaths:
        hcalls += [dict(op="resolve", path=hp), dict(op="kopen", path=hp, oflags=O["PATH"]), dict(op="resolve", path=hp, nofollow=True), dict(op="kopen", path=hp, oflags=O["PATH"] | O["NOFOLLOW"]),
                   dict(op="open", path=hp, oflags=O["RDONLY"] | O["NONBLOCK"]), dict(op="kopen", path=hp, oflags=O["RDONLY"] | O["NONBLOCK"])]
    hid = lambda x: (lambda o: o if o[0] != "ok" else ("ok", x.get("rawdev"), x.get("rawino"), x.get("ft"), (x.get("fl") or 0) & MASK))(lib_outcome(x))
    for bname, feat in rootops_static.FEATS:
        # the raw openat2 reference needs the syscall: the "emulated" worker keeps it away from the library only by ... the
        # seccomp mask, so its reference answers come from the kernel-backend worker (same host tree; per-process procfs
        # entries are compared by path class, see below)
        r = run_pv([dict(id="hostroot|" + bname, tree=[], feat=feat, trace=False, root_override="/", calls=hcalls)], jobs=1, tag="C04h")[0]
        if r.get("status") != "ok" or "results" not in r["out"][0]:
            raise ToolError("host-root case failed: %s" % json.dumps(r)[:300])
        rs = r["out"][0]["results"]
        if bname == "kernel":
            href = [hid(x) for x in rs]
        for ci in range(0, len(hcalls), 2):
            call, got = hcalls[ci], hid(rs[ci])
            want = href[ci + 1]
            perproc = "proc/self" in call["path"] or "proc/thread-self" in call["path"] or call["path"] in ("proc/mounts", "proc/net")
            if perproc and got[0] == "ok" and want[0] == "ok":
                got, want = (got[0], got[1], got[3], got[4]), (want[0], want[1], want[3], want[4])      # inode numbers of /proc/<pid> differ between the two workers
            stats["hostroot_cases"] += 1
            if got != want:
                v.violation(dict(check="backend-equivalence", family="host-root", op=call["op"], path=call["path"], backend=bname, got=list(got), want=list(want)),
                            "C04/%s(%r%s) with the root \"/\" [%s backend]: %s; raw openat2(RESOLVE_IN_ROOT) gives %s" % (call["op"], call["path"], ", nofollow" if call.get("nofollow") else "", bname, got, want),
                            dict(id="replay", tree=[], feat=feat, trace=False, root_override="/", calls=[call]))
    if rres["kernel"][1] != rres["emulated"][1]:
        v.violation(dict(check="backend-equivalence", family="raw-bytes", op="final-tree"), "C04: after the operations on paths with raw bytes the two backends left different trees: kernel %s, emulated %s" % (
            [x for x in rres["kernel"][1] if x not in rres["emulated"][1]][:4], [x for x in rres["emulated"][1] if x not in rres["kernel"][1]][:4]), {})
    if nres["kernel"][1] != nres["emulated"][1]:
        v.violation(dict(check="backend-equivalence", family="nul-byte", op="final-tree"), "C04: after the operations with NUL bytes in their paths the two backends left different trees", {})
    rc = v.finish()
    cov = dict(host_root_cases=stats["hostroot_cases"], unprivileged_cases=stats["perm_cases"], unprivileged_outcomes=stats.get("perm_outcomes"), nul_byte_cases=stats["nul_cases"], raw_byte_cases=stats["raw_byte_cases"], states=cova["states"] + data["gen"]["distinct"], transitions=cova["transitions"] + data["gen"]["states"],
               traces_validated_against_impl=stats["lookup_cases"] + stats["mutation_cases"] + stats["mkrm_cases"] + stats["lattice_cases"], samples=samples or cova["samples"][:2],
               evaluations=2 * (stats["lookup_cases"] + stats["mutation_cases"] + stats["mkrm_cases"] + stats["lattice_cases"]),
               distinct_nontrivial=stats["mutation_cases"] + stats["mkrm_cases"] + stats["lattice_cases"],
               rule="paired case = same tree and arguments executed once per feature set; families: TLC lookup cases, TLC single-entry mutation cases, TLC mkdir_all/remove_all spellings, open flag lattice (4 access modes x subsets of <=3 of 11 flag bits) x 13 paths; non-trivial counts the mutation and flag families",
               exhaustive=not quick, flag_combinations=ncombos, lookup_cases=stats["lookup_cases"], lookup_cases_real_budget=stats["lookup_cases_real_budget"], mutation_cases=stats["mutation_cases"], mkrm_cases=stats["mkrm_cases"],
               lattice_cases=stats["lattice_cases"], inconclusive_eagain=stats["inconclusive_eagain"],
               flag_sets_accepted=stats["flag_sets_accepted"], flag_sets_not_accepted_by_openat2=stats["flag_sets_not_accepted_by_openat2"])
    write_evidence("C04", tier_, "model_checking", cov, ASSUME, time.time() - t0, len(v.violations))
    return rc
