"""Shared by C06/C07: TLC (Procfs.tla) generates (over-mount set, handle kind, resolver, base, path,
op) with the model's expected outcome; each case is executed in the shard's private mount
namespace with the over-mounts really mounted on the host /proc."""
import json, time, random, collections
from lib.common import *

PROC_MAGIC = 0x9fa0
HOW = {"fsopen": "fsopen", "fsopen_subset": "fsopen_subset", "open_tree": "open_tree", "open_tree_rec": "open_tree_rec", "open": "open", "userfd_open": "open_rd"}
TARGET = {"self": "/proc/self", "tself": "/proc/thread-self", "status": "/proc/{pid}/status", "exe": "/proc/{pid}/exe", "fd": "/proc/{pid}/fd", "attr": "/proc/{pid}/attr",
          "attrcur": "/proc/{pid}/attr/current", "stat": "/proc/stat", "sys": "/proc/sys", "tid": "/proc/{pid}/task/{pid}"}
SRC = {"bind-procfile": "/proc/{pid}/environ", "bind-procdir": "/proc/1", "bind-symlink": "1", "bind-file": "", "tmpfs": ""}
BASE = {"self": "self", "tself": "thread-self", "root": "root"}
# where the kernel must say a returned descriptor points (d_path relative to the procfs root), per skeleton node
NODEPATH = {"pid": "/{pid}", "status": "/{pid}/status", "environ": "/{pid}/environ", "fd": "/{pid}/fd", "attr": "/{pid}/attr", "attrcur": "/{pid}/attr/current",
            "task": "/{pid}/task", "tid": "/{pid}/task/{pid}", "tidstatus": "/{pid}/task/{pid}/status", "stat": "/stat", "sys": "/sys", "pid1": "/1",
            "pidmounts": "/{pid}/mounts"}


def wrong_object(x, node, wpid):
    """a successful non-following open must return the procfs object of the requested path: compare the kernel's d_path
    of the returned descriptor with the path of the expected skeleton node (for the worker's own pid)"""
    want = NODEPATH.get(node)
    got = x.get("fdpath")
    if not want or not got or not wpid:
        return None
    want = want.replace("{pid}", str(wpid))
    if got == want or got == "/proc" + want:
        return None
    return "returned %s, the requested path names %s" % (got, want)


def real_path(comps):
    out = []
    prev = None
    for c in comps:
        if c == "PID" or c == "TID":
            out.append("{pid}")
        elif c == "N":
            out.append("2")
        elif c == "f" and prev == "sys":
            out += ["kernel", "ostype"]
        else:
            out.append(c)
        prev = c
    return "/".join(out)


def to_pv(g, idx):
    mounts = [dict(target=TARGET[m["node"]], kind=m["kind"], src=SRC[m["kind"]]) for m in g["om"]]
    # a self/thread-self over-mount must come last (the supervisor itself uses numeric /proc/<pid> paths only)
    mounts.sort(key=lambda m: m["target"] in ("/proc/self", "/proc/thread-self"))
    path = real_path(g["path"])
    op = g["op"]
    if op == "open":
        call = dict(op="proc_open", base=BASE[g["base"]], path=path, oflags=O["RDONLY"] | O["NONBLOCK"])
    elif op == "open_path":
        call = dict(op="proc_open", base=BASE[g["base"]], path=path, oflags=O["PATH"])
    elif op == "open_follow":
        call = dict(op="proc_open_follow", base=BASE[g["base"]], path=path, oflags=O["PATH"])
    else:
        call = dict(op="proc_readlink", base=BASE[g["base"]], path=path)
    feat = {"openat2": g["rs"] == "openat2"}
    return dict(id="proc|%d" % idx, tree=[], feat=feat, trace=False, mounts=mounts, calls=[dict(op="proc_from_fd", how=HOW[g["hk"]]), call], meta=dict(g=g))


def generate(cfg, rnd, sample):
    gen = run_tlc("Procfs.tla", cfg, workers=8, timeout=1800)
    gcases = [b for t, b in gen["prints"] if t == "CASE"]
    if not gen["complete"] or not gcases:
        raise ToolError("TLC did not enumerate Procfs: %s" % gen["out"][-1500:])
    total = len(gcases)
    if sample and len(gcases) > sample:
        withm = [g for g in gcases if g["om"]]
        nom = [g for g in gcases if not g["om"]]
        rnd.shuffle(withm)
        rnd.shuffle(nom)
        gcases = withm[:int(sample * 0.8)] + nom[:int(sample * 0.2)]
    return gen, gcases, total


def execute(gcases, jobs=8):
    cases = [to_pv(g, i) for i, g in enumerate(gcases)]
    cases.sort(key=lambda c: json.dumps(c["feat"]))
    res = run_pv(cases, jobs=jobs, tag="proc")
    return cases, res


def sees(hk):
    return hk in ("open", "open_tree_rec", "userfd_open")
