"""Boundary sweeps: every attacker action of a repertoire placed before every relevant syscall
of a library call (and flip-flop pairs), executed under the ptrace supervisor and judged by TLC
trace validation (spec/TraceFS.tla).  Shared by C02, C03, C12, C13."""
import json, time, random, collections, copy
from lib.common import *
from lib.project import *

P, R, OUT, SECRET = 1, 2, 3, 4

# ---- race trees: root content plus a staging area next to the root (parent id 1 = P) -------------
def N(id, p, n, k, b=""):
    d = dict(id=id, p=p, n=n, k=k)
    if k == "lnk":
        d["b"] = b
    return d


STAGE = [N(20, P, "stage", "dir"), N(21, 20, "d", "dir"), N(22, 21, "c", "dir"), N(23, 20, "l_out", "lnk", "../../out"),
         N(24, 20, "l_abs", "lnk", "/../../out"), N(25, 20, "f", "file"), N(26, 20, "l_secret", "lnk", "../out/secret"),
         N(27, OUT, "sub", "dir"), N(28, 27, "c", "dir"),
         # twins OUTSIDE the root of names that lookups end in: after an escape through "..", a trailing symlink / file of
         # that name is found next to the moved directory (a no-follow lookup that skips its checks returns it)
         N(40, OUT, "up", "lnk", "host-link-body-1"), N(41, 27, "up", "lnk", "host-link-body-2"), N(42, 27, "f", "file"), N(43, OUT, "e", "dir"), N(44, 27, "e", "dir"),
         # a host directory whose absolute path is longer than PATH_MAX (the kernel cannot name what lives there: d_path
         # reads of descriptors below it fail with ENAMETOOLONG), with the same twins
         N(45, OUT, "deep", "deepchain"), N(46, 45, "up", "lnk", "host-link-body-3"), N(47, 45, "f", "file"), N(48, 45, "e", "dir")]

RACE_TREES = {
    "chain": [N(5, R, "a", "dir"), N(6, 5, "b", "dir"), N(7, 6, "c", "dir"), N(8, 7, "f", "file"), N(9, R, "e", "dir")] + STAGE,
    "links": [N(5, R, "a", "dir"), N(6, 5, "b", "dir"), N(7, 6, "c", "dir"), N(8, R, "la", "lnk", "a/b"), N(9, 6, "up", "lnk", "../.."),
              N(10, R, "ldd", "lnk", "a/b/../b/c"), N(11, 7, "f", "file"), N(12, R, "e", "dir")] + STAGE,
}

# "mirror": below the root a chain of directories spells the HOST path of the root's parent P (the harness expands
# "@HOSTPARENT"); when the attacker moves  root/<host path of P>/d  to  P/d , the lexical in-root position of the walk
# reads exactly like the real host path of the escaped object -- a string comparison of the two that forgets which
# part is the root prefix accepts the escape
MIRROR_TREE = [dict(id=30, p=R, n="@HOSTPARENT", k="mirror"), N(31, 30, "d", "dir"), N(32, 31, "in", "file")] + STAGE
MIRROR_PATHS = ["@HOSTPARENT/d/../out/secret", "@HOSTPARENT/d/..", "@HOSTPARENT/d/../out", "@HOSTPARENT/d/../root"]
MIRROR_ACTS = [dict(act="rename", sp=30, sn="d", dp=P, dn="d", prio=1)]

LOOKUP_PATHS = {
    "chain": ["a/b/c/f", "a/b/../b/c", "a/b/c/../../../e", "a/b/c/..", "a/../a/b/../../e"],
    "links": ["la/c/f", "a/b/up", "a/b/up/a", "ldd/f", "ldd", "la/../b/c", "a/b/c/../up", "la/up/e/..", "a/b/c/../../b/up"],
}


def dents_of(nodes):
    base = [(P, "root", R), (P, "out", OUT), (OUT, "secret", SECRET)]
    return base + [(n["p"], n["n"], n["id"]) for n in nodes]


def inside_root(nodes):
    ins = {R}
    ch = True
    while ch:
        ch = False
        for n in nodes:
            if n["p"] in ins and n["id"] not in ins:
                ins.add(n["id"])
                ch = True
    return ins


def repertoire(nodes, focus=None):
    """single kernel-atomic attacker actions for a tree: move an in-root dentry out, exchange an
    in-root dentry with a staged/outside one, unlink, create; never the root's own dentry"""
    ins = inside_root(nodes)
    kinds = {n["id"]: n["k"] for n in nodes}
    inroot = [(n["p"], n["n"], n["id"]) for n in nodes if n["id"] in ins and n["id"] != R]
    staged = [(n["p"], n["n"], n["id"]) for n in nodes if n["id"] not in ins and n["p"] in (20, OUT) and n["id"] != 20]
    staged.append((OUT, "secret", SECRET))
    acts = []
    for (p, nm, c) in inroot:
        if focus is not None and c not in focus:
            continue
        acts.append(dict(act="rename", sp=p, sn=nm, dp=OUT, dn="moved_" + nm, prio=1))
        acts.append(dict(act="rename", sp=p, sn=nm, dp=27, dn="c2", prio=1))
        if kinds.get(c) == "dir":
            acts.append(dict(act="rename", sp=p, sn=nm, dp=45, dn="c3", prio=1))       # into the unnameable deep directory
            if p != R:
                # stays inside the root but gets shallower: later ".." steps of the walk then climb above the root
                acts.append(dict(act="rename", sp=p, sn=nm, dp=R, dn="in_" + nm, prio=1))
        for (sp, sn, sc) in staged:
            acts.append(dict(act="exchange", sp=p, sn=nm, dp=sp, dn=sn, prio=1 if sc in (23, 27) else 0))
        if kinds.get(c) != "dir":
            acts.append(dict(act="unlink", p=p, n=nm))
    return acts


def inverse(a):
    if a["act"] == "exchange":
        return dict(a)
    if a["act"] == "rename":
        return dict(act="rename", sp=a["dp"], sn=a["dn"], dp=a["sp"], dn=a["sn"], prio=a.get("prio", 0))
    return None


def lookup_calls(path):
    return [dict(op="resolve", path=path), dict(op="resolve", path=path, nofollow=True), dict(op="open", path=path, oflags=O["RDONLY"] | O["NONBLOCK"]),
            dict(op="readlink", path=path), dict(op="resolve", path=path, nosym=True), dict(op="open", path=path, oflags=O["PATH"], nosym=True)]


def baseline_counts(nodes, calls, feat, jobs=4):
    """run each call alone (traced, unattacked) to learn how many relevant syscalls it makes"""
    cases = [dict(id="base-%d" % i, tree=nodes, feat=feat, trace=True, raw=False, calls=[c]) for i, c in enumerate(calls)]
    res = run_pv(cases, jobs=jobs, tag="base")
    counts = []
    for r in res:
        ks = [e.get("k", -1) for e in r.get("events", []) if e.get("ev") == "sys" and e.get("rel")]
        counts.append(max(ks) + 1 if ks else 0)
    return counts, res, cases


def make_sweep(tname, nodes, call, feat, n_rel, acts, pairs=False, rnd=None, max_pairs=None):
    cases = []
    for ai, a in enumerate(acts):
        for k in range(n_rel + 1):
            cases.append(dict(id="%s|%s|%s|%s|a%d@%d" % (tname, call.get("op"), call.get("path", ""), "k" if feat.get("openat2", True) else "e", ai, k), tree=nodes, feat=feat, trace=True, raw=False,
                              calls=[call], sched=[dict(call=0, k=k, acts=[a])], meta=dict(tree=tname, call=call, acts=[a], ks=[k], prio=a.get("prio", 0))))
    if pairs:
        pc = []
        for ai, a in enumerate(acts):
            inv = inverse(a)
            if inv is None:
                continue
            for k1 in range(n_rel + 1):
                for k2 in range(k1 + 1, n_rel + 2):
                    pc.append(dict(id="%s|%s|%s|%s|a%d@%d-%d" % (tname, call.get("op"), call.get("path", ""), "k" if feat.get("openat2", True) else "e", ai, k1, k2), tree=nodes, feat=feat, trace=True, raw=False,
                                   calls=[call], sched=[dict(call=0, k=k1, acts=[a]), dict(call=0, k=k2, acts=[inv])],
                                   meta=dict(tree=tname, call=call, acts=[a, inv], ks=[k1, k2], prio=0)))
        if max_pairs and len(pc) > max_pairs and rnd:
            rnd.shuffle(pc)
            pc = pc[:max_pairs]
        cases += pc
    return cases


def judge(prop_ids, cases, results, verdicts, stats, samples):
    """trace-validate executed cases with TLC and turn `bad` entries into violations"""
    bad, kmm, n_tr, n_ev, st = validate_fs_traces(results, cases)
    stats["traces"] += n_tr
    stats["events"] += n_ev
    stats["trace_states"] += st
    stats["kmm"] += len(kmm)
    by_id = {str(c["id"]): c for c in cases}
    for k in kmm[:5]:
        stats.setdefault("kmm_samples", []).append(k)
    for b in bad:
        if b["prop"] not in prop_ids:
            stats["other_prop_bad"] += 1
            continue
        c = by_id.get(b["case"], {})
        call = (c.get("calls") or [{}])[0]
        meta = c.get("meta", {})
        max_init = max([4] + [n["id"] for n in c.get("tree", []) if n["id"] < 1000])
        sig = dict(check="race-sweep", what=b["what"], op=call.get("op"), path=call.get("path"), nr=b["nr"], backend="kernel" if c.get("feat", {}).get("openat2", True) else "emulated",
                   tree=meta.get("tree"), parent_preexisting=bool(b["d1"] <= max_init), attacked=bool(meta.get("acts")), ks=meta.get("ks"), acts=meta.get("acts"))
        desc = "%s: %s(%r) [%s backend], attacker %s at boundaries %s: %s (syscall %s on dir inode %s name %r)" % (
            b["prop"], call.get("op"), call.get("path"), sig["backend"], json.dumps(meta.get("acts")), meta.get("ks"), b["what"], b["nr"], b["d1"], b["n1"])
        verdicts[b["prop"]].violation(sig, desc, c)
    # a few samples of actual traces
    for c, r in list(zip(cases, results))[:2]:
        if len(samples) < 4:
            samples.append(dict(case=c.get("meta"), events=[e for e in project_fs(r, c) if e["ev"] in ("att", "sys", "end")][:12]))
    return bad


def outcome_stats(results, stats):
    for r in results:
        if r.get("status") != "ok":
            stats["abnormal"] += 1
            continue
        for o in r.get("out", []):
            for x in o.get("results", []):
                if x.get("skip"):
                    continue
                oc = lib_outcome(x)
                stats["outcome_" + oc[0] + ("_" + str(oc[1]) if oc[0] == "err" else "")] += 1
        if any(e.get("ev") == "att" and e.get("ret") == 0 for e in r.get("events", [])):
            stats["attack_fired"] += 1
