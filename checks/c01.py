from lib.common import *
from checks import lookup_static

ASSUME = ["TLC explores the bounded instance only (trees of the catalogue / generated family, paths up to the stated length, scaled link budgets)",
          "the kernel-model oracle (VFS!KResolve) is validated against the real openat2 on every replayed case; where they differ the real kernel arbitrates",
          "real link budgets (40/128) are outside the bounded instance; between them the backends legitimately differ (excluded)"]


def main(tier_):
    cfg = "MC_C01_quick.cfg" if tier_ == "quick" else "MC_C01_thorough.cfg"
    v, cov, wall = lookup_static.run("C01", tier_, cfg, sample=6000 if tier_ == "quick" else None)
    # the real link budgets (40 / 128) on a 130-link chain: TLC with the real constants, all cases replayed
    vb, covb, _ = lookup_static.run("C01", tier_, "MC_C01_budget.cfg", sample=None, bind_budget=True)
    for sig, desc, rep in vb.violations:
        v.violation(dict(sig, family="real-budgets"), desc, rep)
    cov["real_link_budgets"] = dict(states=covb["states"], cases=covb["traces_validated_against_impl"], budget_cases=covb["budget_cases"], budget_constant_drift=covb["budget_constant_drift"], oracle_vs_kernel_mismatch=covb["oracle_vs_kernel_mismatch"],
                                    agree_kernel=covb["agree_kernel"], agree_emulated=covb["agree_emulated"])
    # mechanism-removal variants of the design (vacuity guard): each switch off must make TLC violate C01's invariants
    variants = {}
    base_cfg = open(os.path.join(SPEC, "MC_C01_quick.cfg")).read().replace("EmitCases = TRUE", "EmitCases = FALSE").replace(" CaseOut", "")
    for mech in ("ClampDotDot", "RestartAbsAtRoot", "NoFollowOnOpen", "EmptyPathIsENOENT", "TrailingSlashIsDirTest"):
        cfgp = os.path.join(workdir(), "C01-no-%s.cfg" % mech)
        open(cfgp, "w").write(base_cfg.replace("%s = TRUE" % mech, "%s = FALSE" % mech))
        variants[mech] = run_tlc("MC_Lookup.tla", cfgp, workers=8, timeout=900)["violated"]
    cov["mechanism_removal_variants"] = variants
    # long spellings (the quantifier: every path byte string shorter than PATH_MAX): thousands of components, 255/256-byte
    # names, paths at and beyond PATH_MAX -- library on both backends against the raw openat2 of the kernel
    from checks.lookup_static import op_to_calls
    n255 = "n" * 255
    ltree = [dict(id=5, p=2, n="d", k="dir"), dict(id=6, p=5, n="f", k="file"), dict(id=11, p=5, n="ff", k="file"), dict(id=7, p=2, n=n255, k="file"), dict(id=8, p=5, n="up", k="lnk", b="../d/./f"),
             dict(id=9, p=2, n="big", k="lnk", b="./" * 2046 + "d/f"), dict(id=10, p=2, n="big1", k="lnk", b="./" * 2045 + "d/ff")]     # 4095- and 4094-byte bodies
    lpaths = ["./" * 2000 + "d/f", "d/../" * 800 + "d/f", n255, n255 + "x", "d" + "/" * 3000 + "f", "d/" + "./" * 1000 + "up", "x" * 4095, "d/" * 2047 + "f", "/" * 4090 + "d", "d/up/" + "../" * 1300 + "d/f", "big", "big1", "d/../big"]
    lops = [dict(op="resolve", nofollow=False, nosym=False), dict(op="resolve", nofollow=True, nosym=True), dict(op="open", acc="RDONLY", odir=False, nofollow=False, nosym=False), dict(op="readlink", nofollow=True, nosym=False)]
    lcases = []
    for bname, feat in (("kernel", {"openat2": True}), ("emulated", {"openat2": False})):
        calls = []
        for pth in lpaths:
            for o in lops:
                lib, ker = op_to_calls(o, pth)
                calls.append(lib)
                if bname == "kernel":
                    calls.append(ker)
        lcases.append(dict(id="long|" + bname, tree=ltree, feat=feat, trace=False, calls=calls))
    lres = run_pv(lcases, jobs=2, tag="C01l")
    def outs(r):
        return [lib_outcome(x) for x in ((r.get("out") or [{}])[0].get("results") or [])]
    ko, eo = outs(lres[0]), outs(lres[1])
    nlong = 0
    for pi, pth in enumerate(lpaths):
        for oi, o in enumerate(lops):
            kidx = 2 * (pi * len(lops) + oi)
            eidx = pi * len(lops) + oi
            if kidx + 1 >= len(ko) or eidx >= len(eo):
                raise ToolError("long-path batch incomplete: %s" % json.dumps(lres)[:300])
            truth = ko[kidx + 1]
            if o["op"] == "readlink" and truth[0] == "ok":
                truth = None          # the reference call only opens the link; bodies are compared between the backends
            nlong += 1
            for bname, got in (("kernel", ko[kidx]), ("emulated", eo[eidx])):
                if ("err", "EAGAIN") in (got, truth) or got == ("err", "SAFETY"):
                    continue
                if (truth is not None and got != truth) or (truth is None and ko[kidx] != eo[eidx]):
                    v.violation(dict(check="static-lookup-long", backend=bname, op=o["op"], plen=len(pth), got=list(got), want=list(truth or ko[kidx])),
                                "%s backend: %s of a %d-byte path (%s...%s) gave %s, the kernel's in-root resolution gives %s" % (bname, o["op"], len(pth), pth[:24], pth[-12:], got, truth or ko[kidx]),
                                dict(id="replay", tree=ltree, feat={"openat2": bname == "kernel"}, trace=False, calls=[op_to_calls(o, pth)[0]]))
    cov["long_path_cases"] = nlong
    # names and paths that are not valid UTF-8 (paths are byte strings), with look-alike siblings whose names are what a
    # lossy conversion would produce: library on both backends against the raw openat2, by object identity
    hx = lambda b: b.hex()
    rtree = [dict(id=5, p=2, n="", nhex=hx(b"caf\xe9"), k="dir"), dict(id=6, p=5, n="inner", k="file"),
             dict(id=7, p=2, n="caf\ufffd", k="dir"), dict(id=8, p=7, n="inner", k="file"),
             dict(id=9, p=2, n="", nhex=hx(b"\xff\xfe"), k="file"), dict(id=10, p=2, n="\ufffd\ufffd", k="file"),
             dict(id=11, p=2, n="lk", k="lnk", b="", bhex=hx(b"caf\xe9/inner")), dict(id=12, p=2, n="", nhex=hx(b"l\xe9"), k="lnk", b="caf\ufffd/inner")]
    rpaths = [b"caf\xe9/inner", b"caf\xe9", b"\xff\xfe", b"lk", b"l\xe9", b"caf\xe9/../\xff\xfe", "caf\ufffd/inner".encode(), b"caf\xe9/nx\x80"]
    rops = [dict(op="resolve"), dict(op="resolve", nofollow=True), dict(op="open", oflags=O["RDONLY"] | O["NONBLOCK"]), dict(op="resolve", nosym=True)]
    rcases = []
    for bname, feat in (("kernel", {"openat2": True}), ("emulated", {"openat2": False})):
        calls = []
        for pth in rpaths:
            for o in rops:
                calls.append(dict(o, path="", path_hex=pth.hex()))
                if bname == "kernel":
                    kfl = O["PATH"] | (O["NOFOLLOW"] if o.get("nofollow") else 0) if o["op"] == "resolve" else o["oflags"]
                    calls.append(dict(op="kopen", path="", path_hex=pth.hex(), oflags=kfl, nosym=bool(o.get("nosym"))))
        rcases.append(dict(id="rawbytes|" + bname, tree=rtree, feat=feat, trace=False, calls=calls))
    rres = run_pv(rcases, jobs=2, tag="C01r")
    kro, ero = outs(rres[0]), outs(rres[1])
    nraw = 0
    for pi, pth in enumerate(rpaths):
        for oi, o in enumerate(rops):
            kidx, eidx = 2 * (pi * len(rops) + oi), pi * len(rops) + oi
            if kidx + 1 >= len(kro) or eidx >= len(ero):
                raise ToolError("raw-byte batch incomplete: %s" % json.dumps(rres)[:300])
            truth = kro[kidx + 1]
            nraw += 1
            for bname, got in (("kernel", kro[kidx]), ("emulated", ero[eidx])):
                if ("err", "EAGAIN") in (got, truth) or got == ("err", "SAFETY"):
                    continue
                if got != truth:
                    v.violation(dict(check="static-lookup-rawbytes", backend=bname, op=o["op"], path_hex=pth.hex(), got=list(got), want=list(truth)),
                                "%s backend: %s of the path %r (bytes that are not valid UTF-8) gave %s, the kernel's in-root resolution gives %s" % (bname, o, pth, got, truth),
                                dict(id="replay", tree=rtree, feat={"openat2": bname == "kernel"}, trace=False, calls=[dict(o, path="", path_hex=pth.hex())]))
    cov["raw_byte_path_cases"] = nraw
    rc = v.finish()
    write_evidence("C01", tier_, "model_checking", cov, ASSUME, wall, len(v.violations))
    return rc
