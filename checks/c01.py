from lib.common import *
from checks import lookup_static

ASSUME = ["TLC explores the bounded instance only (trees of the catalogue / generated family, paths up to the stated length, scaled link budgets)",
          "the kernel-model oracle (VFS!KResolve) is validated against the real openat2 on every replayed case; where they differ the real kernel arbitrates",
          "real link budgets (40/128) are outside the bounded instance; between them the backends legitimately differ (excluded)"]


def main(tier_):
    cfg = "MC_C01_quick.cfg" if tier_ == "quick" else "MC_C01_thorough.cfg"
    v, cov, wall = lookup_static.run("C01", tier_, cfg, sample=6000 if tier_ == "quick" else None)
    # the real link budgets (40 / 128) on a 130-link chain: TLC with the real constants, all cases replayed
    vb, covb, _ = lookup_static.run("C01", tier_, "MC_C01_budget.cfg", sample=None, bind_budget=True)
    for sig, desc, rep in vb.violations:
        v.violation(dict(sig, family="real-budgets"), desc, rep)
    cov["real_link_budgets"] = dict(states=covb["states"], cases=covb["traces_validated_against_impl"], budget_cases=covb["budget_cases"], budget_constant_drift=covb["budget_constant_drift"], oracle_vs_kernel_mismatch=covb["oracle_vs_kernel_mismatch"],
                                    agree_kernel=covb["agree_kernel"], agree_emulated=covb["agree_emulated"])
    rc = v.finish()
    write_evidence("C01", tier_, "model_checking", cov, ASSUME, wall, len(v.violations))
    return rc
